import sys, json, collections
sys.path.insert(0,'/verif')
import logging; logging.disable(logging.WARNING)
from j2ov import families, shapecheck, corpus
from j2ov.checks import c01
ids=[i for i in families.ids('A4','thorough') if len(sys.argv)<2 or any(s in i for s in sys.argv[1:])]
if len(sys.argv)>1 and sys.argv[1]=='REG':
    ids=[i for i in corpus.registry_ids() if '_dynamic' in i][:: int(sys.argv[2]) if len(sys.argv)>2 else 10]
c=collections.Counter()
for pid in ids:
    try: p=c01.get_program(pid)
    except Exception as e: print(pid,'skip',e); continue
    r=shapecheck.analyze_shapes(p)
    c[r['status']]+=1
    print(pid, r['status'], (r.get('reason') or '')[:120], {k:(round(v,2) if isinstance(v,float) else v) for k,v in r['stats'].items() if v})
    for f in r['findings'][:4]:
        ok,info=shapecheck.replay_finding(p, r['model'], f)
        print('    ',f['kind'],f['text'][:140],f['binding'],'REPLAY',ok, {k:v for k,v in info.items() if k not in('binding','shapes')})
print(c)
