"""dev helper: run the C01 pipeline on registry programs matching substrings."""
import sys, time, json, faulthandler
faulthandler.dump_traceback_later(int(__import__('os').environ.get('DUMP_AFTER','60')), exit=True)
sys.path.insert(0,'/verif')
import logging; logging.disable(logging.WARNING)
from j2ov import corpus, pipeline
ids = corpus.registry_ids(include_f64=True)
sel = [i for i in ids if any(k in i for k in sys.argv[1:])]
for pid in sel[:60]:
    try:
        p = corpus.registry_program(pid)
    except corpus.OutOfBound as e:
        print(pid,'out_of_bound',e); continue
    r = pipeline.analyze(p)
    print(pid, r['status'], r.get('reason',''), {k:v for k,v in r.get('stats',{}).items() if v}, r.get('wall_s'))
    if r['status'] in('harness_error',): print(r.get('tb'))
    if r['status']=='violation': print(json.dumps(r['witness'])[:600])
