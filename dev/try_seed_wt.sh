#!/bin/sh
# usage: dev/try_seed_wt.sh <patched worktree> <ID> [tier]  - run a check against a patched scratch worktree
# (imports jax2onnx from the worktree via PYTHONPATH; /repo untouched; evidence/replays go to a scratch dir)
WT=$1; ID=$2; TIER=${3:-quick}
OUT=/verif/.work/seedrun_$(basename $WT)_$ID
mkdir -p $OUT
cd /verif && PYTHONPATH=$WT J2OV_EVIDENCE_DIR=$OUT/evidence J2OV_REPLAY_DIR=$OUT/replays ./run $ID $TIER > $OUT/log.txt 2>&1
echo "exit=$? violations=$(grep -c '^VIOLATION' $OUT/log.txt) known=$(grep -c '^KNOWN-FINDING' $OUT/log.txt)"
grep -A1 '^VIOLATION' $OUT/log.txt | grep '^  ' | cut -c1-260 | head -${4:-8}
