import sys, json, collections, time
sys.path.insert(0,'/verif')
from j2ov import runner
t=time.time()
res, crashed = runner.run_sharded('j2ov.survey','quick')
print('wall', time.time()-t, 'n', len(res), 'crashed', len(crashed))
for c in crashed: print(c)
json.dump(res, open('/verif/.work/survey.json','w'))
c = collections.Counter(r['status'] for r in res); print(c)
rs = collections.Counter((r['status'], (r.get('reason') or '')[:90]) for r in res if r['status'] not in ('proved',))
for k,v in rs.most_common(120): print(v,k)
