#!/bin/sh
# usage: dev/try_seed.sh <seed dir> <command...>   apply patch to /repo, run command, always revert
D=$1; shift
cd /repo && git status --short | grep -q . && { echo "/repo not clean"; exit 3; }
git -C /repo apply $D/patch.diff || exit 3
( cd /verif && "$@" ); rc=$?
git -C /repo checkout -- . 
echo "exit=$rc"; git -C /repo status --short | head -3
