"""dev helper: run pipeline on family members: dev/fam.py A5 [substr]"""
import sys, json
sys.path.insert(0,'/verif')
import logging; logging.disable(logging.WARNING)
from j2ov import families, pipeline
fam=sys.argv[1]
ids=[i for i in families.ids(fam,'thorough') if len(sys.argv)<3 or any(s in i for s in sys.argv[2:])]
import collections
c=collections.Counter()
for pid in ids:
    r=pipeline.analyze(families.program(pid), pipeline.Options(unroll=4))
    c[r['status']]+=1
    print(pid, r['status'], (r.get('reason') or '')[:150], {k:v for k,v in r.get('stats',{}).items() if v and k!='solver_s'}, r.get('wall_s'))
    if r['status']=='harness_error': print(r.get('tb'))
    if r['status']=='violation':
        w=r['witness']; print('   IN',str(w.get('inputs'))[:200],'JAX',str(w.get('jax'))[:150],'ORT',str(w.get('ort',w.get('ort_error')))[:200], w.get('why'))
print(c)
