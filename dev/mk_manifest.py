"""Regenerate /verif/MANIFEST.json from the table below and validate it."""
import json, sys
sys.path.insert(0, '/verif')


NOT_YET = {}

def main():
    from j2ov.checks import registry
    checks = []
    for pid in sorted(registry.CHECKS):
        c = registry.CHECKS[pid]
        checks.append({
            "property_id": pid,
            "quick_cmd": f"./run {pid} quick",
            "thorough_cmd": f"./run {pid} thorough",
            "evidence_file": f"/verif/evidence/{pid}.json",
            "replay_cmd_template": "./run replay {path}",
            "engine": c.get("engine", "j2ov"),
            "level_claimed": {"category": c["level"], "text": c["text"], "design_ref": c["design"]},
            "level_note": c["note"],
            "technique": c["technique"],
        })
    m = {
        "version": 1,
        "setup_cmd": "./setup.sh",
        "hooks": {"guard": "JAX2ONNX_VERIF", "enable": "not needed: no in-repo hooks; checks wrap module attributes at run time in their own process", "baseline_off_cmd": "cd /repo && /venv/bin/python -m pytest -ra -q -p no:cacheprovider --timeout=900 --continue-on-collection-errors", "source_commits": [], "add_only": True},
        "engines": [
            {"name": "E2", "path": "j2ov/onnx_sem.py, j2ov/jax_sem.py, j2ov/equiv.py, j2ov/pipeline.py", "serves_properties": [p for p in sorted(registry.CHECKS) if registry.CHECKS[p].get("engine", "E2") == "E2"], "kind_free_text": "symbolic execution of the exported ONNX model and the reference jaxpr over z3 terms; per-element SMT queries; ORT/JAX replay"},
            {"name": "E1", "path": "j2ov/checks/c17.py, c18.py, c19.py, j2ov/crosshair_util.py", "serves_properties": [p for p in sorted(registry.CHECKS) if registry.CHECKS[p].get("engine") == "E1"], "kind_free_text": "CrossHair / direct z3 encodings of decision kernels read from the live source"},
        ],
        "checks": checks,
        "not_applicable": [{"property_id": k, "reason": v} for k, v in sorted(registry.NOT_APPLICABLE.items())],
        "notes": "Solver-based checking (z3 5.1, CrossHair 0.0.110). Every verdict is bounded; bounds and undecided programs are listed in each evidence file. Known genuine defects: known_findings.json.",
    }
    json.dump(m, open('/verif/MANIFEST.json', 'w'), indent=1)
    import jsonschema
    jsonschema.validate(m, json.load(open('/root/.vp/MANIFEST.schema.json')))
    print('MANIFEST ok:', [c['property_id'] for c in checks], 'N/A:', sorted(registry.NOT_APPLICABLE))

if __name__ == '__main__':
    main()
