#!/bin/sh
# Run the repo's pinned test suite and compare with BASELINE.json stable_pass.  usage: run_baseline.sh <tag>
TAG=${1:-base}
cd /repo && nice -n 5 /venv/bin/python -m pytest -ra -q -p no:cacheprovider --timeout=900 --continue-on-collection-errors --junitxml=/tmp/junit_$TAG.xml > /tmp/pytest_$TAG.log 2>&1
/venv/bin/python - "$TAG" <<'PY'
import json, sys, xml.etree.ElementTree as ET
tag=sys.argv[1]
base=json.load(open('/root/.vp/BASELINE.json'))
stable=set(base['stable_pass'])
t=ET.parse(f'/tmp/junit_{tag}.xml')
passed=set()
for tc in t.iter('testcase'):
    name=f"{tc.get('classname')}::{tc.get('name')}"
    if not any(ch.tag in ('failure','error','skipped') for ch in tc):
        passed.add(name)
missing=sorted(stable-passed)
print(tag, 'stable_pass', len(stable), 'passed now', len(passed), 'stable missing', len(missing))
for m in missing[:30]: print('  MISSING', m)
PY
