import sys, json
sys.path.insert(0,'/verif')
import logging; logging.disable(logging.WARNING)
import numpy as np, onnx
from j2ov import corpus, pipeline
ids = corpus.registry_ids(include_f64=True)
pid=[i for i in ids if sys.argv[1] in i][0]
p = corpus.registry_program(pid)
m=pipeline.export(p)
try:
    onnx.checker.check_model(m, full_check=True); print('checker ok')
except Exception as e: print('checker', str(e)[:500])
import onnxruntime as ort
s=ort.InferenceSession(m.SerializeToString())
feeds={}
for i in s.get_inputs():
    print(i.name, i.type, i.shape)
    dt={'tensor(float)':np.float32,'tensor(int32)':np.int32,'tensor(int64)':np.int64,'tensor(bool)':bool,'tensor(double)':np.float64}[i.type]
    feeds[i.name]=np.asarray(np.ones([d if isinstance(d,int) else 3 for d in i.shape],dt)*(int(sys.argv[2]) if len(sys.argv)>2 else 1)).astype(dt)
try:
    print(s.run(None,feeds))
except Exception as e: print(str(e)[:1500])
try:
    print(pipeline.ort_run(m, feeds))
except Exception as e: print('PIPE', str(e)[:1500])
