#!/bin/sh
# run every registered check at a tier, keep logs under .work/all_<tier>/
TIER=${1:-quick}
cd /verif; mkdir -p .work/all_$TIER
for id in $(python3 -c "import json; print(' '.join(c['property_id'] for c in json.load(open('/verif/MANIFEST.json'))['checks']))"); do
  s=$(date +%s)
  ./run $id $TIER > .work/all_$TIER/$id.log 2>&1
  rc=$?
  e=$(date +%s)
  echo "$id rc=$rc wall=$((e-s))s violations=$(grep -c '^VIOLATION' .work/all_$TIER/$id.log) known=$(grep -c '^KNOWN-FINDING' .work/all_$TIER/$id.log)" | tee -a .work/all_$TIER/summary.txt
done
