"""usage: accept_findings.py <PROP> <logfile> [--only substr ...]  -> append VIOLATION keys of a run as known findings"""
import json, sys, re
prop, log = sys.argv[1], sys.argv[2]
only = sys.argv[4:] if len(sys.argv) > 3 and sys.argv[3] == '--only' else None
lines = open(log).read().split('\n')
found = []
for i, l in enumerate(lines):
    if l.startswith('VIOLATION property='):
        nxt = lines[i + 1] if i + 1 < len(lines) else ''
        m = re.match(r'^  (.*?): (.*)$', nxt)
        if m:
            found.append((m.group(1), m.group(2)))
p = '/verif/known_findings.json'
d = json.load(open(p))
have = {(f['property'], f['key']) for f in d['findings'] if f.get('status') == 'known'}
n = 0
for key, what in found:
    if only and not any(s in key for s in only):
        continue
    if (prop, key) in have:
        continue
    d['findings'].append({'property': prop, 'key': key, 'status': 'known', 'what': what[:300]})
    have.add((prop, key)); n += 1
json.dump(d, open(p, 'w'), indent=1)
print('added', n, 'of', len(found))
