import sys, json, time
sys.path.insert(0,'/verif')
import logging; logging.disable(logging.WARNING)
from j2ov.checks import c02
fam=sys.argv[1]; tier=sys.argv[2] if len(sys.argv)>2 else 'quick'
t=time.time()
jobs=c02.list_jobs(tier, families=[fam])
print(len(jobs),'jobs')
res=[c02.run_job(j,tier) for j in jobs]
tot,stats,viol,inc,be=c02.aggregate(res)
print(tot, {k:round(v,2) for k,v in stats.items()}, 'time',round(time.time()-t,1))
print('VIOL',len(viol))
for v in viol[:40]: print('  ',v['key'], '::', v['what'][:150])
print('INC',len(inc))
for v in inc[:15]: print('  ',v[:200])
print('BUILD',len(be))
for v in be[:10]: print('  ',v[:250])
