import sys, json
sys.path.insert(0,'/verif')
import logging; logging.disable(logging.WARNING)
from j2ov import families
from j2ov.checks import c04
import collections
c=collections.Counter()
ids=[i for i in families.ids('A4','thorough') if len(sys.argv)<2 or any(s in i for s in sys.argv[1:])]
for pid in ids:
    r=c04.run_job(pid,'quick')
    c[r['status']]+=1
    print(pid, r['status'], (r.get('reason') or '')[:140], r.get('binding'), [ (tuple(x['binding'].values()), x['status']) for x in r.get('per_binding',[])])
    if r['status']=='violation':
        w=r['witness']; print('   IN',str(w.get('inputs'))[:200],'JAX',str(w.get('jax'))[:150],'ORT',str(w.get('ort',w.get('ort_error')))[:200], w.get('why'))
    if r['status']=='harness_error': print(r.get('tb'))
print(c)
