import sys, json
sys.path.insert(0,'/verif')
import logging; logging.disable(logging.WARNING)
import numpy as np, onnx
from j2ov import corpus, pipeline
ids = corpus.registry_ids(include_f64=True)
pid=[i for i in ids if sys.argv[1] in i][0]
p = corpus.registry_program(pid)
shapes=p.concrete_shapes()
cj=pipeline.trace_reference(p, shapes)
print(cj)
m=pipeline.export(p)
print(onnx.printer.to_text(m)[:int(sys.argv[2]) if len(sys.argv)>2 else 3000])
