"""Shape-mode obligations for one symbolic-shape program, decided by z3 for ALL bindings."""
from __future__ import annotations

import time

import numpy as np
import onnx
import z3

from . import pipeline, shape_sem
from .shape_sem import is_sym, simp
from .sym import NotEncodable
from .onnx_sem import ModelInvalid, np_dtype_of


def jax_symbolic_outputs(prog):
    """-> list of (dtype, [dim text...]) from jax.eval_shape under symbolic dimensions"""
    import jax
    from jax import export

    scope = export.SymbolicScope()
    sds = []
    x64 = prog.x64
    with pipeline.x64_mode(x64):
        for shp, dt in prog.specs:
            if any(isinstance(d, str) for d in shp):
                s = export.symbolic_shape(",".join(str(d) for d in shp), scope=scope)
            else:
                s = tuple(shp)
            sds.append(jax.ShapeDtypeStruct(s, pipeline.spec_dtype(dt, x64)))
        frozen = dict(prog.input_params)
        out = jax.eval_shape(lambda *a: prog.fn(*a, **frozen), *sds)
        leaves = jax.tree_util.tree_leaves(out)
    return [(np.dtype(l.dtype), [str(d) for d in l.shape]) for l in leaves]


def _solve(facts, cond, timeout_ms):
    s = z3.Solver()
    s.set("timeout", timeout_ms)
    for f in facts:
        s.add(f)
    s.add(cond)
    t0 = time.time()
    r = str(s.check())
    return r, (s.model() if r == "sat" else None), time.time() - t0


def binding_from_model(model, symbols):
    b = {}
    for name, v in symbols.items():
        val = model.eval(v, model_completion=True)
        try:
            b[name] = max(1, min(int(val.as_long()), 64))
        except Exception:
            b[name] = 2
    return b


def _all_value_infos(model):
    """(scope prefix, ValueInfoProto) for the top graph (nested graphs use the prefixes of shape_sem)"""
    out = []

    def walk(g, prefix):
        for vi in list(g.value_info) + list(g.output) + list(g.input):
            out.append((prefix, vi))
        for n in g.node:
            for a in n.attribute:
                if a.type == onnx.AttributeProto.GRAPH:
                    sub = {"then_branch": "then/", "else_branch": "else/", "body": "loop/"}.get(a.name, a.name + "/")
                    walk(a.g, prefix + sub)

    walk(model.graph, "")
    return out


def analyze_shapes(prog, timeout_ms=5000, check_annotations=True, max_queries=400):
    """-> dict(status, findings [dict(kind, text, binding)], stats)"""
    res = {"status": None, "findings": [], "stats": {"obligations": 0, "unsat": 0, "sat": 0, "unknown": 0, "trivial": 0, "solver_s": 0.0, "annotations": 0}}
    try:
        jout = jax_symbolic_outputs(prog)
    except Exception as e:
        res.update(status="reference_failed", reason=f"{type(e).__name__}: {str(e)[:150]}")
        return res
    try:
        model = pipeline.export(prog)
    except Exception as e:
        res.update(status="export_failed", reason=f"{type(e).__name__}: {str(e)[:150]}")
        return res
    res["model"] = model
    try:
        outs, ctx, symbols, inputs = shape_sem.run_model(model)
    except ModelInvalid as e:
        res.update(status="candidate_invalid", reason=str(e)[:200])
        return res
    except NotEncodable as e:
        res.update(status="not_encodable", reason=str(e)[:200])
        return res
    facts = list(ctx.facts)
    st = res["stats"]
    nq = 0

    def query(cond, kind, text):
        nonlocal nq
        st["obligations"] += 1
        c = z3.simplify(cond) if is_sym(cond) else cond
        if isinstance(c, bool):
            if c:
                res["findings"].append({"kind": kind, "text": text, "binding": {k: 2 for k in symbols}})
            else:
                st["trivial"] += 1
            return
        if z3.is_false(c):
            st["trivial"] += 1
            return
        if nq >= max_queries:
            st["unknown"] += 1
            return
        nq += 1
        r, m, dt = _solve(facts, c, timeout_ms)
        st["solver_s"] += dt
        if r == "unsat":
            st["unsat"] += 1
        elif r == "sat":
            st["sat"] += 1
            res["findings"].append({"kind": kind, "text": text, "binding": binding_from_model(m, symbols)})
        else:
            st["unknown"] += 1

    # (a) operator obligations hold for every binding
    for ob, text in ctx.obligations:
        query(z3.Not(ob), "obligation", text)
    # (b) runtime output shapes equal the JAX output shapes for every binding
    if len(outs) != len(jout):
        res["findings"].append({"kind": "output_count", "text": f"{len(outs)} model outputs vs {len(jout)} JAX leaves", "binding": {k: 2 for k in symbols}})
    else:
        out_nchw = set(prog.config.get("outputs_as_nchw") or ())
        for i, (o, (jdt, jdims)) in enumerate(zip(outs, jout)):
            if len(jdims) != o.rank:
                res["findings"].append({"kind": "output_rank", "text": f"output {i}: rank {o.rank} vs JAX {len(jdims)}", "binding": {k: 2 for k in symbols}})
                continue
            if i in out_nchw and len(jdims) == 4:
                jdims = [jdims[0], jdims[3], jdims[1], jdims[2]]
            for j, (od, jd) in enumerate(zip(o.shape, jdims)):
                try:
                    jz = shape_sem.parse_dim(jd, symbols)
                except NotEncodable as e:
                    st["unknown"] += 1
                    continue
                e = shape_sem.deq(od, jz)
                if e is True:
                    st["obligations"] += 1
                    st["trivial"] += 1
                    continue
                query((od != jz) if not isinstance(e, bool) else True, "output_shape", f"output {i} dim {j}: model computes {od}, JAX computes {jd}")
    # (c) declared annotations never contradict the runtime shape / element type
    if check_annotations:
        seen = set()
        for prefix, vi in _all_value_infos(model):
            key = prefix + vi.name
            if key in seen or key not in ctx.values:
                continue
            seen.add(key)
            sv = ctx.values[key]
            tt = vi.type.tensor_type
            if tt.elem_type and np_dtype_of(tt.elem_type) != sv.dtype:
                res["findings"].append({"kind": "annotation_dtype", "text": f"value {key}: declared {np_dtype_of(tt.elem_type)}, runtime {sv.dtype}", "binding": {k: 2 for k in symbols}, "value": key})
            if not tt.HasField("shape"):
                continue
            if len(tt.shape.dim) != sv.rank:
                res["findings"].append({"kind": "annotation_rank", "text": f"value {key}: declared rank {len(tt.shape.dim)}, runtime rank {sv.rank}", "binding": {k: 2 for k in symbols}, "value": key})
                continue
            for j, (d, rd) in enumerate(zip(tt.shape.dim, sv.shape)):
                st["annotations"] += 1
                if d.HasField("dim_value"):
                    e = shape_sem.deq(rd, int(d.dim_value))
                    if e is True:
                        continue
                    before = len(res["findings"])
                    query((rd != int(d.dim_value)) if not isinstance(e, bool) else True, "annotation_dim", f"value {key} dim {j}: declared {d.dim_value}, runtime {rd}")
                    for f in res["findings"][before:]:
                        f["value"] = key
                elif d.dim_param and d.dim_param in symbols and not prefix:
                    e = shape_sem.deq(rd, symbols[d.dim_param])
                    if e is True:
                        continue
                    before = len(res["findings"])
                    query((rd != symbols[d.dim_param]) if not isinstance(e, bool) else True, "annotation_symbol", f"value {key} dim {j}: declared symbol {d.dim_param}, runtime {rd}")
                    for f in res["findings"][before:]:
                        f["value"] = key
    res["symbols"] = sorted(symbols)
    res["status"] = "candidate" if res["findings"] else ("proved" if st["unknown"] == 0 else "inconclusive")
    return res


# --------------------------------------------------------------------------- replay

def replay_finding(prog, model, finding):
    """Confirm a shape finding on ONNX Runtime (and JAX) at the witness binding. -> (bool, info)"""
    import jax

    b = finding.get("binding") or {}
    shapes = prog.concrete_shapes(b)
    dtypes = pipeline._dtypes_for(prog, prog.x64)
    rng = np.random.default_rng(3)
    arrays = []
    for s, dt in zip(shapes, dtypes):
        dt = np.dtype(dt)
        if dt.kind == "f":
            arrays.append((rng.standard_normal(s) * 0.5).astype(dt))
        elif dt.kind in "iu":
            arrays.append(rng.integers(0, 3, size=s).astype(dt))
        else:
            arrays.append(rng.random(s) > 0.5)
    pnames = set(prog.input_params)
    pos_names = [g.name for g in pipeline.model_io(model, prog) if g.name not in pnames]
    info = {"binding": b, "shapes": [list(s) for s in shapes]}
    kind = finding["kind"]
    if kind.startswith("annotation") and finding.get("value") and "/" not in finding["value"]:
        # expose the annotated value as an extra graph output and look at its runtime shape/dtype
        m2 = onnx.ModelProto()
        m2.CopyFrom(model)
        name = finding["value"]
        vis = [v for v in list(m2.graph.value_info) + list(m2.graph.output) + list(m2.graph.input) if v.name == name]
        if not vis:
            return False, info
        declared = vis[0]
        if not any(o.name == name for o in m2.graph.output):
            m2.graph.output.append(onnx.helper.make_empty_tensor_value_info(name))
        try:
            feeds = _feeds(model, prog, arrays, pos_names)
            outs = pipeline.ort_run(m2, feeds)
        except Exception as e:
            info["ort_error"] = str(e)[:200]
            return False, info
        idx = [o.name for o in m2.graph.output].index(name)
        got = np.asarray(outs[idx])
        info["runtime_shape"] = list(got.shape)
        info["runtime_dtype"] = str(got.dtype)
        dd = [(int(d.dim_value) if d.HasField("dim_value") else (b.get(d.dim_param) if d.dim_param in b else None)) for d in declared.type.tensor_type.shape.dim]
        info["declared"] = dd
        if kind == "annotation_dtype":
            return np_dtype_of(declared.type.tensor_type.elem_type) != got.dtype, info
        if len(dd) != got.ndim:
            return True, info
        return any(x is not None and x != y for x, y in zip(dd, got.shape)), info
    try:
        cj = pipeline.trace_reference(prog, shapes)
        differs, rinfo = pipeline.replay_concrete(prog, cj, model, arrays, pos_names)
    except Exception as e:
        info["replay_error"] = f"{type(e).__name__}: {str(e)[:200]}"
        return False, info
    info.update({k: rinfo.get(k) for k in ("why", "ort_error") if k in rinfo})
    return differs, info


def _feeds(model, prog, arrays, pos_names):
    gins = {g.name: g for g in pipeline.model_io(model, prog)}
    in_nchw = set(prog.config.get("inputs_as_nchw") or ())
    feeds = {}
    for i, (n, a) in enumerate(zip(pos_names, arrays)):
        mdt = np_dtype_of(gins[n].type.tensor_type.elem_type)
        aa = np.transpose(a, (0, 3, 1, 2)) if i in in_nchw else a
        feeds[n] = np.require(np.asarray(aa).astype(mdt), requirements="C")
    for k, v in prog.input_params.items():
        if k in gins:
            feeds[k] = np.asarray(v).astype(np_dtype_of(gins[k].type.tensor_type.elem_type))
    return feeds
