"""Symbolic scalars and tensors shared by the jaxpr and ONNX evaluators.

A tensor is ``T(dtype, a)`` with ``a`` a numpy object array whose elements are either
concrete Python values (bool / int / float) or z3 terms:

  bool dtype            -> z3 Bool
  int*/uint* dtypes     -> z3 Int, wrapped to the dtype range after every arithmetic op
  float* dtypes         -> z3 Real; transcendental functions are uninterpreted functions
                           shared by both evaluators (after definitional unfolding)

Concrete operands are folded in Python (exact ints, float64), which is also the
"concrete backend" used for translator self-validation: feeding concrete inputs makes
every kernel below compute real numbers.
"""
from __future__ import annotations

import math
from fractions import Fraction

import numpy as np
import z3


class NotEncodable(Exception):
    """The program uses something outside the encodable vocabulary / bound."""


class DomainError(Exception):
    pass


class ShapeMismatch(Exception):
    """operands cannot be broadcast / combined: a runtime shape error of the evaluated program"""


# --------------------------------------------------------------------------- basics

def is_sym(x) -> bool:
    return isinstance(x, z3.ExprRef)


def kind_of(dtype) -> str:
    dt = np.dtype(dtype)
    if dt == np.bool_:
        return "b"
    if dt.kind in "iu":
        return "i"
    if dt.kind == "f" or dt.name == "bfloat16":
        return "f"
    if dt.kind == "c":
        return "c"
    if dt.kind == "V" or "float8" in dt.name or "bfloat" in dt.name:
        return "f"
    raise NotEncodable(f"dtype {dt}")


def int_range(dtype):
    ii = np.iinfo(np.dtype(dtype))
    return int(ii.min), int(ii.max)


# special extended-real constants (only ever *selected*, compared or max/min'ed exactly;
# arithmetic on them is an abstraction and flagged)
PINF = z3.Real("__pinf")
NINF = z3.Real("__ninf")
NAN = z3.Real("__nan")
INPUT_BOUND = 2 ** 16  # |x| <= 65536: keeps squares/cubes of inputs inside float32 range (stated bound)
SPECIAL_AXIOMS = [PINF > 2 ** 120, NINF < -(2 ** 120)]
_used_specials = set()


def used_specials():
    return set(_used_specials)


def reset_specials():
    _used_specials.clear()


def fconst(v):
    """python float -> element (keeps inf/nan as python floats)."""
    return float(v)


def to_z3_real(v):
    if is_sym(v):
        return v
    if isinstance(v, bool):
        v = int(v)
    if isinstance(v, int):
        return z3.RealVal(v)
    if isinstance(v, Fraction):
        return z3.RealVal(v)
    v = float(v)
    if math.isnan(v):
        _used_specials.add("nan")
        return NAN
    if math.isinf(v):
        _used_specials.add("inf")
        return PINF if v > 0 else NINF
    return z3.RealVal(Fraction(v))


def to_z3_int(v):
    if is_sym(v):
        return v
    return z3.IntVal(int(v))


def to_z3_bool(v):
    if is_sym(v):
        return v
    return z3.BoolVal(bool(v))


def to_z3(v, kind):
    return {"b": to_z3_bool, "i": to_z3_int, "f": to_z3_real}[kind](v)


def _isinf(v):
    return isinstance(v, float) and math.isinf(v)


def _isnan(v):
    return isinstance(v, float) and math.isnan(v)


# --------------------------------------------------------------------------- bool ops

def b_not(a):
    return z3.Not(a) if is_sym(a) else (not a)


def b_and(a, b):
    if not is_sym(a):
        return b if a else False
    if not is_sym(b):
        return a if b else False
    return z3.And(a, b)


def b_or(a, b):
    if not is_sym(a):
        return True if a else b
    if not is_sym(b):
        return True if b else a
    return z3.Or(a, b)


def b_xor(a, b):
    if not is_sym(a) and not is_sym(b):
        return bool(a) != bool(b)
    if not is_sym(a):
        return b_not(b) if a else b
    if not is_sym(b):
        return b_not(a) if b else a
    return z3.Xor(a, b)


def ite(c, x, y, kind):
    """select: c ? x : y"""
    if not is_sym(c):
        return x if c else y
    if not is_sym(x) and not is_sym(y):
        if kind != "f" or not (_isnan(x) and _isnan(y)):
            try:
                if x == y and type(x) is type(y):
                    return x
            except Exception:
                pass
    if is_sym(x) and is_sym(y) and x.eq(y):
        return x
    return z3.If(c, to_z3(x, kind), to_z3(y, kind))


# --------------------------------------------------------------------------- integer ops

def wrap(v, dtype):
    lo, hi = int_range(dtype)
    if not is_sym(v):
        v = int(v)
        m = hi - lo + 1
        return ((v - lo) % m) + lo
    m = hi - lo + 1
    if lo == 0:
        return v % m
    return ((v - lo) % m) + lo


_IUF = {}
# symbolic bitwise / shift operations: exact (Int2BV / BV2Int round trip through the bit-vector theory)
# or, when False, shared uninterpreted functions
EXACT_BITS = False  # Int2BV/BV2Int mixes came back unknown at 12 s on a 3-element shift; see DESIGN.md


def _iuf(name, arity):
    key = (name, arity)
    if key not in _IUF:
        _IUF[key] = z3.Function("iuf_" + name, *([z3.IntSort()] * arity), z3.IntSort())
    return _IUF[key]


def _to_unsigned(v, dt):
    lo, hi = int_range(dt)
    return int(v) - lo if False else (int(v) & ((1 << (np.dtype(dt).itemsize * 8)) - 1))


def _from_unsigned(u, dt):
    return wrap(int(u), dt)


def i_bit(name, a, b, dt):
    """and / or / xor on two's-complement integers of dtype dt.  Concrete operands are computed;
    symbolic ones become a shared uninterpreted function per (operation, dtype) with the algebraic
    identities that lowerings rely on resolved syntactically (x&x, x|0, x^0, x&0, commutation by
    ordering the arguments)."""
    if not is_sym(a) and not is_sym(b):
        ua, ub = _to_unsigned(a, dt), _to_unsigned(b, dt)
        r = {"and": ua & ub, "or": ua | ub, "xor": ua ^ ub}[name]
        return _from_unsigned(r, dt)
    allones = -1 if int_range(dt)[0] < 0 else int_range(dt)[1]
    for x, y in ((a, b), (b, a)):
        if not is_sym(y):
            y = int(y)
            if y == 0:
                return 0 if name == "and" else x
            if y == allones:
                if name == "and":
                    return x
                if name == "or":
                    return allones
                return i_not(x, dt)
    if is_sym(a) and is_sym(b) and a.eq(b):
        return 0 if name == "xor" else a
    xa = a if is_sym(a) else z3.IntVal(int(a))
    xb = b if is_sym(b) else z3.IntVal(int(b))
    if EXACT_BITS:
        bits = np.dtype(dt).itemsize * 8
        va, vb = z3.Int2BV(xa, bits), z3.Int2BV(xb, bits)
        r = {"and": va & vb, "or": va | vb, "xor": va ^ vb}[name]
        return z3.BV2Int(r, is_signed=int_range(dt)[0] < 0)
    _used_specials.add("bit" + name)
    if str(xa) > str(xb):  # commutative: canonical argument order
        xa, xb = xb, xa
    return _iuf(f"{name}_{np.dtype(dt).name}", 2)(xa, xb)


def i_not(a, dt):
    lo, hi = int_range(dt)
    if lo < 0:
        return wrap(-a - 1, dt) if is_sym(a) else wrap(-int(a) - 1, dt)
    return (hi - a) if is_sym(a) else hi - int(a)


def i_shift(kind, a, n, dt):
    """kind in {left, right_logical, right_arithmetic}; the amount n must be concrete for an exact
    encoding, otherwise an uninterpreted function is shared by both sides"""
    bits = np.dtype(dt).itemsize * 8
    lo, hi = int_range(dt)
    if not is_sym(n):
        n = int(n)
        if n < 0 or n >= bits:
            raise DomainError("shift amount outside [0, bits)")
        if not is_sym(a):
            ua = _to_unsigned(a, dt)
            if kind == "left":
                return _from_unsigned((ua << n) & ((1 << bits) - 1), dt)
            if kind == "right_logical":
                return _from_unsigned(ua >> n, dt)
            return wrap(int(a) >> n, dt)
        if n == 0:
            return a
        if kind == "left":
            return wrap(a * (1 << n), dt)
        if kind == "right_arithmetic" or lo == 0:
            return a / (1 << n)  # z3 Int division by a positive constant is floor division
        # logical right shift of a signed value: reinterpret as unsigned first
        ua = z3.If(a < 0, a + (1 << bits), a)
        return wrap(ua / (1 << n), dt)
    xa = a if is_sym(a) else z3.IntVal(int(a))
    if EXACT_BITS:
        va, vn = z3.Int2BV(xa, bits), z3.Int2BV(n, bits)
        r = (va << vn) if kind == "left" else (z3.LShR(va, vn) if (kind == "right_logical" or lo == 0) else (va >> vn))
        return z3.BV2Int(r, is_signed=lo < 0)
    _used_specials.add("shift")
    if kind == "right_arithmetic" and lo < 0:
        return _iuf(f"sar_{bits}", 2)(xa, n)
    # left / logical right: one function per width over the UNSIGNED representation, so that a lowering
    # that casts to the unsigned type, shifts and casts back builds the same term
    if lo < 0:
        xa = xa % (1 << bits)
    kname = "shl" if kind == "left" else "shr"
    r = _iuf(f"{kname}_{bits}", 2)(xa, n)
    return wrap(r, dt) if lo < 0 else r


def i_add(a, b, dt):
    if not is_sym(a) and not is_sym(b):
        return wrap(int(a) + int(b), dt)
    if not is_sym(b) and int(b) == 0:
        return a
    if not is_sym(a) and int(a) == 0:
        return b
    return wrap(a + b, dt)


def i_sub(a, b, dt):
    if not is_sym(a) and not is_sym(b):
        return wrap(int(a) - int(b), dt)
    if not is_sym(b) and int(b) == 0:
        return a
    return wrap(a - b, dt)


def i_mul(a, b, dt):
    if not is_sym(a) and not is_sym(b):
        return wrap(int(a) * int(b), dt)
    for u, v in ((a, b), (b, a)):
        if not is_sym(u):
            if int(u) == 0:
                return 0
            if int(u) == 1:
                return v
    return wrap(a * b, dt)


def i_neg(a, dt):
    if not is_sym(a):
        return wrap(-int(a), dt)
    return wrap(-a, dt)


def _py_trunc_div(a, b):
    q = abs(a) // abs(b)
    return q if (a >= 0) == (b >= 0) else -q


def i_div_trunc(a, b, dt):
    """C-style division (lax.div / ONNX Div on ints). b != 0 is a domain predicate."""
    if not is_sym(a) and not is_sym(b):
        if int(b) == 0:
            raise DomainError("integer division by zero constant")
        return wrap(_py_trunc_div(int(a), int(b)), dt)
    A, B = to_z3_int(a), to_z3_int(b)
    lo, _ = int_range(dt)
    if lo == 0:
        return wrap(A / B, dt)  # z3 Int division is floor for positive divisor
    # z3 `/` on Int: euclidean-ish (floor for b>0, ceil for b<0); build truncation
    absq = z3.If(A >= 0, A, -A) / z3.If(B >= 0, B, -B)
    q = z3.If((A >= 0) == (B >= 0), absq, -absq)
    return wrap(q, dt)


def i_rem_trunc(a, b, dt):
    """remainder with the sign of the dividend (lax.rem, ONNX Mod fmod=1)."""
    if not is_sym(a) and not is_sym(b):
        if int(b) == 0:
            raise DomainError("integer rem by zero constant")
        a, b = int(a), int(b)
        return wrap(a - _py_trunc_div(a, b) * b, dt)
    A, B = to_z3_int(a), to_z3_int(b)
    lo, _ = int_range(dt)
    if lo == 0:
        return A % B
    absr = z3.If(A >= 0, A, -A) % z3.If(B >= 0, B, -B)
    return z3.If(A >= 0, absr, -absr)


def i_floordiv(a, b, dt):
    if not is_sym(a) and not is_sym(b):
        if int(b) == 0:
            raise DomainError("integer floordiv by zero constant")
        return wrap(int(a) // int(b), dt)
    A, B = to_z3_int(a), to_z3_int(b)
    # z3 div: a = b*q + r, 0<=r<|b|.  floor division: for b>0 same; for b<0 floor(a/b) = -ceil(a/-b)
    q = z3.If(B > 0, A / B, (-A) / (-B))
    return wrap(q, dt)


def i_mod_floor(a, b, dt):
    """remainder with the sign of the divisor (python %, ONNX Mod fmod=0)."""
    if not is_sym(a) and not is_sym(b):
        if int(b) == 0:
            raise DomainError("integer mod by zero constant")
        return wrap(int(a) % int(b), dt)
    A, B = to_z3_int(a), to_z3_int(b)
    return z3.If(B > 0, A % B, -((-A) % (-B)))


def i_abs(a, dt):
    if not is_sym(a):
        return wrap(abs(int(a)), dt)
    return wrap(z3.If(a >= 0, a, -a), dt)


def i_sign(a, dt):
    if not is_sym(a):
        a = int(a)
        return (a > 0) - (a < 0)
    return z3.If(a > 0, 1, z3.If(a < 0, -1, 0))


def i_max(a, b):
    if not is_sym(a) and not is_sym(b):
        return max(int(a), int(b))
    if is_sym(a) and is_sym(b) and a.eq(b):
        return a
    A, B = to_z3_int(a), to_z3_int(b)
    return z3.If(A >= B, A, B)


def i_min(a, b):
    if not is_sym(a) and not is_sym(b):
        return min(int(a), int(b))
    if is_sym(a) and is_sym(b) and a.eq(b):
        return a
    A, B = to_z3_int(a), to_z3_int(b)
    return z3.If(A <= B, A, B)


def i_pow(a, n, dt):
    """integer power with concrete non-negative exponent."""
    n = int(n)
    if n < 0:
        raise NotEncodable("negative integer power on ints")
    r = 1
    for _ in range(n):
        r = i_mul(r, a, dt)
    return r


# comparisons (shared by ints and reals)

def _cmp(a, b, pyop, zop, kind):
    if not is_sym(a) and not is_sym(b):
        return bool(pyop(a, b))
    if kind == "f":
        # exact handling of +-inf constants against finite symbolic values
        for u, v, flip in ((a, b, False), (b, a, True)):
            if _isnan(u):
                return pyop is _ne
        A, B = to_z3_real(a), to_z3_real(b)
    elif kind == "b":
        A, B = to_z3_bool(a), to_z3_bool(b)
        if pyop in (_eq, _ne):
            return zop(A, B)
        A, B = z3.If(A, 1, 0), z3.If(B, 1, 0)
    else:
        A, B = to_z3_int(a), to_z3_int(b)
    if A.eq(B):
        return bool(pyop(0, 0))
    return zop(A, B)


def _eq(a, b):
    return a == b


def _ne(a, b):
    return a != b


def c_eq(a, b, kind):
    return _cmp(a, b, _eq, lambda x, y: x == y, kind)


def c_ne(a, b, kind):
    return _cmp(a, b, _ne, lambda x, y: x != y, kind)


def c_lt(a, b, kind):
    return _cmp(a, b, lambda x, y: x < y, lambda x, y: x < y, kind)


def c_le(a, b, kind):
    return _cmp(a, b, lambda x, y: x <= y, lambda x, y: x <= y, kind)


def c_gt(a, b, kind):
    return _cmp(a, b, lambda x, y: x > y, lambda x, y: x > y, kind)


def c_ge(a, b, kind):
    return _cmp(a, b, lambda x, y: x >= y, lambda x, y: x >= y, kind)


# --------------------------------------------------------------------------- real ops

def _fl(x):
    return float(x)


def f_add(a, b):
    if not is_sym(a) and not is_sym(b):
        return _fl(a) + _fl(b)
    for u, v in ((a, b), (b, a)):
        if not is_sym(u):
            if _fl(u) == 0.0:
                return v
            if _isinf(u) or _isnan(u):
                _used_specials.add("arith")
    return to_z3_real(a) + to_z3_real(b)


def f_sub(a, b):
    if not is_sym(a) and not is_sym(b):
        return _fl(a) - _fl(b)
    if not is_sym(b) and _fl(b) == 0.0:
        return a
    for u in (a, b):
        if not is_sym(u) and (_isinf(u) or _isnan(u)):
            _used_specials.add("arith")
    if is_sym(a) and is_sym(b) and a.eq(b):
        return 0.0
    return to_z3_real(a) - to_z3_real(b)


def f_mul(a, b):
    if not is_sym(a) and not is_sym(b):
        return _fl(a) * _fl(b)
    for u, v in ((a, b), (b, a)):
        if not is_sym(u):
            if _fl(u) == 1.0:
                return v
            if _fl(u) == 0.0:
                return 0.0  # finite-input assumption
            if _isinf(u) or _isnan(u):
                _used_specials.add("arith")
    return to_z3_real(a) * to_z3_real(b)


def f_div(a, b):
    if not is_sym(a) and not is_sym(b):
        a, b = _fl(a), _fl(b)
        if b == 0.0:
            if a == 0.0 or math.isnan(a):
                return float("nan")
            return math.copysign(float("inf"), a) * (math.copysign(1.0, b))
        return a / b
    if not is_sym(b):
        if _fl(b) == 1.0:
            return a
        if _fl(b) == 0.0:
            raise DomainError("float division by zero constant")
        if _isinf(b):
            return 0.0
    return to_z3_real(a) / to_z3_real(b)


def f_neg(a):
    if not is_sym(a):
        return -_fl(a)
    return -a


def f_abs(a):
    if not is_sym(a):
        return abs(_fl(a))
    return z3.If(a >= 0, a, -a)


def f_sign(a):
    if not is_sym(a):
        a = _fl(a)
        if math.isnan(a):
            return a
        return float((a > 0) - (a < 0))
    return z3.If(a > 0, z3.RealVal(1), z3.If(a < 0, z3.RealVal(-1), z3.RealVal(0)))


def f_max(a, b):
    if not is_sym(a) and not is_sym(b):
        a, b = _fl(a), _fl(b)
        if math.isnan(a) or math.isnan(b):
            return float("nan")
        return max(a, b)
    for u, v in ((a, b), (b, a)):
        if not is_sym(u):
            if _isinf(u):
                return v if u < 0 else u
    if is_sym(a) and is_sym(b) and a.eq(b):
        return a
    A, B = to_z3_real(a), to_z3_real(b)
    return z3.If(A >= B, A, B)


def f_min(a, b):
    if not is_sym(a) and not is_sym(b):
        a, b = _fl(a), _fl(b)
        if math.isnan(a) or math.isnan(b):
            return float("nan")
        return min(a, b)
    for u, v in ((a, b), (b, a)):
        if not is_sym(u):
            if _isinf(u):
                return v if u > 0 else u
    if is_sym(a) and is_sym(b) and a.eq(b):
        return a
    A, B = to_z3_real(a), to_z3_real(b)
    return z3.If(A <= B, A, B)


def f_floor(a):
    if not is_sym(a):
        a = _fl(a)
        return a if (math.isinf(a) or math.isnan(a)) else float(math.floor(a))
    return z3.ToReal(z3.ToInt(a))


def f_ceil(a):
    if not is_sym(a):
        a = _fl(a)
        return a if (math.isinf(a) or math.isnan(a)) else float(math.ceil(a))
    return -z3.ToReal(z3.ToInt(-a))


def f_trunc(a):
    if not is_sym(a):
        a = _fl(a)
        return a if (math.isinf(a) or math.isnan(a)) else float(math.trunc(a))
    return z3.If(a >= 0, z3.ToReal(z3.ToInt(a)), -z3.ToReal(z3.ToInt(-a)))


def f_round_even(a):
    if not is_sym(a):
        a = _fl(a)
        return a if (math.isinf(a) or math.isnan(a)) else float(round(a))
    fl = z3.ToInt(a)
    d = a - z3.ToReal(fl)
    return z3.ToReal(z3.If(d < 0.5, fl, z3.If(d > 0.5, fl + 1, z3.If(fl % 2 == 0, fl, fl + 1))))


def f_round_away(a):
    if not is_sym(a):
        a = _fl(a)
        if math.isinf(a) or math.isnan(a):
            return a
        return float(math.floor(abs(a) + 0.5)) * (1.0 if a >= 0 else -1.0)
    ab = z3.If(a >= 0, a, -a)
    r = z3.ToReal(z3.ToInt(ab + 0.5))
    return z3.If(a >= 0, r, -r)


# uninterpreted transcendental basis --------------------------------------------------

_R = z3.RealSort()
_UF = {}


def _uf(name, arity=1):
    key = (name, arity)
    if key not in _UF:
        _UF[key] = z3.Function("uf_" + name, *([_R] * arity), _R)
    return _UF[key]


_PY_UNARY = {
    "exp": math.exp,
    "log": lambda x: math.log(x) if x > 0 else (float("-inf") if x == 0 else float("nan")),
    "sqrt": lambda x: math.sqrt(x) if x >= 0 else float("nan"),
    "sin": math.sin,
    "cos": math.cos,
    "atan": math.atan,
    "asin": lambda x: math.asin(x) if -1 <= x <= 1 else float("nan"),
    "acos": lambda x: math.acos(x) if -1 <= x <= 1 else float("nan"),
    "erf": math.erf,
    "tanh": math.tanh,
    "asinh": math.asinh,
    "acosh": lambda x: math.acosh(x) if x >= 1 else float("nan"),
    "atanh": lambda x: math.atanh(x) if -1 < x < 1 else (math.copysign(float("inf"), x) if abs(x) == 1 else float("nan")),
    "lgamma": lambda x: math.lgamma(x) if not (x <= 0 and x == int(x)) else float("inf"),
    "cbrt": lambda x: math.copysign(abs(x) ** (1.0 / 3.0), x),
    "erf_inv": None,
    "digamma": None,
    "rnd32": lambda x: float(np.float32(x)),
    "rnd16": lambda x: float(np.float16(x)),
    "rndbf16": None,
}

USED_UFS = set()


def f_un(name, a):
    """basis transcendental (uninterpreted when symbolic)."""
    if not is_sym(a):
        fn = _PY_UNARY.get(name)
        if fn is None:
            raise NotEncodable(f"no concrete impl for {name}")
        a = _fl(a)
        if math.isnan(a):
            return a
        try:
            return float(fn(a))
        except OverflowError:
            return float("inf")
        except ValueError:
            return float("nan")
    if name == "cos":
        # normal form cos(t) = sin(t + pi/2): lowerings that emit Sin(x + c) build the same term up to
        # the rounding of c, which the Lipschitz instance axioms of sin absorb
        USED_UFS.add("sin")
        return _uf("sin")(a + z3.RealVal(Fraction(math.pi / 2)))
    USED_UFS.add(name)
    return _uf(name)(a)


def f_pow(a, b):
    if not is_sym(a) and not is_sym(b):
        a, b = _fl(a), _fl(b)
        with np.errstate(all="ignore"):  # IEEE pow: 0 ** -1.5 = inf, (-1) ** 0.5 = nan
            return float(np.power(np.float64(a), np.float64(b)))
    if not is_sym(b):
        bf = _fl(b)
        if bf == int(bf) and 0 <= int(bf) <= 8:
            return f_ipow(a, int(bf))
        if bf == 0.5:
            return f_un("sqrt", a)
    USED_UFS.add("pow")
    return _uf("pow", 2)(to_z3_real(a), to_z3_real(b))


def f_ipow(a, n):
    n = int(n)
    if n < 0:
        return f_div(1.0, f_ipow(a, -n))
    if n == 0:
        return 1.0
    if not is_sym(a):
        try:
            return _fl(a) ** n
        except OverflowError:
            return float("inf")
    r = a
    for _ in range(n - 1):
        r = r * a
    return r


def f_atan2(y, x):
    if not is_sym(y) and not is_sym(x):
        return math.atan2(_fl(y), _fl(x))
    USED_UFS.add("atan2")
    return _uf("atan2", 2)(to_z3_real(y), to_z3_real(x))


def f_bin_uf(name, a, b, pyfn=None):
    if not is_sym(a) and not is_sym(b):
        if pyfn is None:
            raise NotEncodable(name)
        return float(pyfn(_fl(a), _fl(b)))
    USED_UFS.add(name)
    return _uf(name, 2)(to_z3_real(a), to_z3_real(b))


# derived functions: definitional normal form over the basis --------------------------

def f_exp(a):
    return f_un("exp", a)


def f_log(a):
    return f_un("log", a)


def f_sqrt(a):
    return f_un("sqrt", a)


def f_rsqrt(a):
    return f_div(1.0, f_sqrt(a))


def f_expm1(a):
    return f_sub(f_exp(a), 1.0)


def f_log1p(a):
    return f_log(f_add(1.0, a))


def f_exp2(a):
    return f_pow(2.0, a)


def f_logistic(a):
    return f_div(1.0, f_add(1.0, f_exp(f_neg(a))))


def f_tanh(a):
    return f_un("tanh", a)


def f_sinh(a):
    return f_div(f_sub(f_exp(a), f_exp(f_neg(a))), 2.0)


def f_cosh(a):
    return f_div(f_add(f_exp(a), f_exp(f_neg(a))), 2.0)


def f_tan(a):
    return f_div(f_un("sin", a), f_un("cos", a))


def f_erfc(a):
    return f_sub(1.0, f_un("erf", a))


def f_square(a):
    return f_mul(a, a)


def f_fmod(a, b):
    """C fmod: a - b*trunc(a/b) (sign of dividend)."""
    if not is_sym(a) and not is_sym(b):
        a, b = _fl(a), _fl(b)
        if b == 0 or math.isinf(a) or math.isnan(a) or math.isnan(b):
            return float("nan")
        return math.fmod(a, b)
    return f_sub(a, f_mul(b, f_trunc(f_div(a, b))))


def f_pymod(a, b):
    """floor-mod: a - b*floor(a/b) (sign of divisor)."""
    if not is_sym(a) and not is_sym(b):
        a, b = _fl(a), _fl(b)
        if b == 0 or math.isinf(a) or math.isnan(a) or math.isnan(b):
            return float("nan")
        return a - b * math.floor(a / b)
    return f_sub(a, f_mul(b, f_floor(f_div(a, b))))


# --------------------------------------------------------------------------- casts

# roundings read as the identity while the REFERENCE side of a double-precision program is evaluated
# whose own JAX evaluation narrows internally (the claim is then "equal up to the error JAX's own
# single-precision evaluation already carries")
IDENTITY_ROUNDINGS: set = set()


def cast_elem(v, src, dst, domain):
    """Cast one element; `domain` collects domain predicates (z3 Bools)."""
    sk, dk = kind_of(src), kind_of(dst)
    if sk == "c" or dk == "c":
        raise NotEncodable("complex cast")
    if sk == dk:
        if sk == "b":
            return v
        if sk == "i":
            if np.dtype(src) == np.dtype(dst):
                return v
            slo, shi = int_range(src)
            dlo, dhi = int_range(dst)
            if dlo <= slo and shi <= dhi:
                return v
            return wrap(v, dst)
        # float -> float
        ss, ds = np.dtype(src).itemsize, np.dtype(dst).itemsize
        if ds >= ss and np.dtype(src).name != "bfloat16":
            return v
        if np.dtype(src) == np.dtype(dst):
            return v
        name = {4: "rnd32", 2: "rnd16"}.get(ds, "rnd8")
        if np.dtype(dst).name == "bfloat16":
            name = "rndbf16"
        if np.dtype(src).name == "bfloat16" and ds >= 4:
            return v
        if not is_sym(v):
            if _isnan(v) or _isinf(v):
                return v
            return float(np.asarray(v).astype(dst))
        if name in IDENTITY_ROUNDINGS:
            return v
        return f_un(name, v)
    if sk == "b":
        if dk == "i":
            return ite(v, 1, 0, "i")
        return ite(v, 1.0, 0.0, "f")
    if dk == "b":
        if sk == "i":
            return c_ne(v, 0, "i")
        return c_ne(v, 0.0, "f")
    if sk == "i" and dk == "f":
        if not is_sym(v):
            return float(int(v))
        return z3.ToReal(v)
    if sk == "f" and dk == "i":
        lo, hi = int_range(dst)
        if not is_sym(v):
            v = _fl(v)
            if math.isnan(v) or math.isinf(v) or not (lo - 1 < v < hi + 1):
                raise DomainError("float->int cast of out-of-range constant")
            return int(math.trunc(v))
        domain.append(z3.And(v > lo - 1, v < hi + 1))
        return z3.If(v >= 0, z3.ToInt(v), -z3.ToInt(-v))
    raise NotEncodable(f"cast {src}->{dst}")


# --------------------------------------------------------------------------- tensors

class T:
    __slots__ = ("dtype", "a")

    def __init__(self, dtype, a):
        self.dtype = np.dtype(dtype)
        if not isinstance(a, np.ndarray) or a.dtype != object:
            b = np.empty(np.shape(a), dtype=object)
            if b.ndim == 0:
                b[()] = a
            else:
                b[...] = a
            a = b
        self.a = a

    @property
    def shape(self):
        return self.a.shape

    @property
    def kind(self):
        return kind_of(self.dtype)

    @property
    def ndim(self):
        return self.a.ndim

    @property
    def size(self):
        return self.a.size

    def is_concrete(self):
        return not any(is_sym(x) for x in self.a.flat)

    def to_numpy(self):
        """concrete tensor -> numpy array of its dtype"""
        if not self.is_concrete():
            raise NotEncodable("concrete value required")
        if self.kind == "b":
            return np.array(self.a.tolist(), dtype=bool).reshape(self.shape)
        if self.kind == "i":
            return np.array([int(x) for x in self.a.flat], dtype=self.dtype).reshape(self.shape)
        return np.array([float(x) for x in self.a.flat], dtype=np.float64).reshape(self.shape).astype(
            self.dtype if self.dtype.kind == "f" else np.float64
        )

    def ints(self):
        """concrete int tensor -> list of python ints (flat)"""
        if not self.is_concrete():
            raise NotEncodable("concrete integer value required")
        return [int(x) for x in self.a.flat]

    def __repr__(self):
        return f"T({self.dtype},{self.shape})"


def _obj(shape):
    return np.empty(shape, dtype=object)


def from_numpy(arr, dtype=None) -> T:
    arr = np.asarray(arr)
    dt = np.dtype(dtype) if dtype is not None else arr.dtype
    k = kind_of(dt)
    if k == "c":
        raise NotEncodable("complex constant")
    out = _obj(arr.shape)
    if arr.dtype.kind not in "biuf":
        arr = arr.astype(np.float64)  # bfloat16 / float8 etc.
    flat = arr.reshape(-1).tolist()
    o = out.reshape(-1) if out.ndim else out
    if k == "b":
        conv = bool
    elif k == "i":
        conv = int
    else:
        conv = float
    if out.ndim == 0:
        out[()] = conv(flat[0])
    else:
        for i, v in enumerate(flat):
            o[i] = conv(v)
    return T(dt, out)


def fresh_input(name, shape, dtype, constraints) -> T:
    dt = np.dtype(dtype)
    k = kind_of(dt)
    if k == "c":
        raise NotEncodable("complex input")
    out = _obj(shape)
    n = int(np.prod(shape)) if len(shape) else 1
    flat = out.reshape(-1) if out.ndim else None
    for i in range(n):
        nm = f"{name}_{i}"
        if k == "b":
            v = z3.Bool(nm)
        elif k == "i":
            v = z3.Int(nm)
            lo, hi = int_range(dt)
            constraints.append(z3.And(v >= lo, v <= hi))
        else:
            v = z3.Real(nm)
            constraints.append(z3.And(v >= -INPUT_BOUND, v <= INPUT_BOUND))
        if flat is None:
            out[()] = v
        else:
            flat[i] = v
    return T(dt, out)


def full(shape, v, dtype) -> T:
    out = _obj(shape)
    if out.ndim == 0:
        out[()] = v
    else:
        out.fill(v)
    return T(dtype, out)


def bcast_shapes(*shapes):
    try:
        return np.broadcast_shapes(*shapes)
    except ValueError:
        raise ShapeMismatch(f"cannot broadcast shapes {shapes}")


def map1(fn, x: T, dtype=None) -> T:
    out = _obj(x.shape)
    if out.ndim == 0:
        out[()] = fn(x.a[()])
    else:
        of, xf = out.reshape(-1), x.a.reshape(-1)
        for i in range(xf.size):
            of[i] = fn(xf[i])
    return T(dtype if dtype is not None else x.dtype, out)


def map2(fn, x: T, y: T, dtype) -> T:
    shp = bcast_shapes(x.shape, y.shape)
    xa = np.broadcast_to(x.a, shp)
    ya = np.broadcast_to(y.a, shp)
    out = _obj(shp)
    if out.ndim == 0:
        out[()] = fn(xa[()], ya[()])
    else:
        of = out.reshape(-1)
        for i, (u, v) in enumerate(zip(xa.flat, ya.flat)):
            of[i] = fn(u, v)
    return T(dtype, out)


def map3(fn, x: T, y: T, z: T, dtype) -> T:
    shp = bcast_shapes(x.shape, y.shape, z.shape)
    xa = np.broadcast_to(x.a, shp)
    ya = np.broadcast_to(y.a, shp)
    za = np.broadcast_to(z.a, shp)
    out = _obj(shp)
    if out.ndim == 0:
        out[()] = fn(xa[()], ya[()], za[()])
    else:
        of = out.reshape(-1)
        for i, (u, v, w) in enumerate(zip(xa.flat, ya.flat, za.flat)):
            of[i] = fn(u, v, w)
    return T(dtype, out)


def reduce_axes(fn, x: T, axes, keepdims, init, dtype=None) -> T:
    """left fold along axes in row-major order; `init` None -> first element (non-empty)."""
    axes = sorted(a % x.ndim for a in axes) if x.ndim else []
    if not axes:
        return T(dtype or x.dtype, x.a.copy())
    rest = [i for i in range(x.ndim) if i not in axes]
    perm = rest + axes
    xa = np.transpose(x.a, perm)
    rshape = tuple(x.shape[i] for i in rest)
    n = int(np.prod([x.shape[i] for i in axes]))
    xa = xa.reshape(rshape + (n,))
    out = _obj(rshape)
    it = np.ndindex(*rshape) if rshape else [()]
    for idx in it:
        row = xa[idx]
        if n == 0:
            if init is None:
                raise NotEncodable("empty reduction without identity")
            acc = init
        else:
            acc = row[0] if init is None else fn(init, row[0])
            for j in range(1, n):
                acc = fn(acc, row[j])
        out[idx] = acc
    if keepdims:
        shp = list(x.shape)
        for a in axes:
            shp[a] = 1
        out = out.reshape(shp)
    return T(dtype or x.dtype, out)


# generic typed dispatch helpers ------------------------------------------------------

def add(x: T, y: T) -> T:
    k = x.kind
    if k == "i":
        return map2(lambda a, b: i_add(a, b, x.dtype), x, y, x.dtype)
    if k == "f":
        return map2(f_add, x, y, x.dtype)
    return map2(b_or, x, y, x.dtype)


def sub(x: T, y: T) -> T:
    k = x.kind
    if k == "i":
        return map2(lambda a, b: i_sub(a, b, x.dtype), x, y, x.dtype)
    if k == "f":
        return map2(f_sub, x, y, x.dtype)
    raise NotEncodable("sub on bool")


def mul(x: T, y: T) -> T:
    k = x.kind
    if k == "i":
        return map2(lambda a, b: i_mul(a, b, x.dtype), x, y, x.dtype)
    if k == "f":
        return map2(f_mul, x, y, x.dtype)
    return map2(b_and, x, y, x.dtype)


def neg(x: T) -> T:
    if x.kind == "i":
        return map1(lambda a: i_neg(a, x.dtype), x)
    if x.kind == "f":
        return map1(f_neg, x)
    raise NotEncodable("neg on bool")


def maximum(x: T, y: T) -> T:
    k = x.kind
    if k == "i":
        return map2(i_max, x, y, x.dtype)
    if k == "f":
        return map2(f_max, x, y, x.dtype)
    return map2(b_or, x, y, x.dtype)


def minimum(x: T, y: T) -> T:
    k = x.kind
    if k == "i":
        return map2(i_min, x, y, x.dtype)
    if k == "f":
        return map2(f_min, x, y, x.dtype)
    return map2(b_and, x, y, x.dtype)


def compare(op, x: T, y: T) -> T:
    k = x.kind
    fn = {"eq": c_eq, "ne": c_ne, "lt": c_lt, "le": c_le, "gt": c_gt, "ge": c_ge}[op]
    return map2(lambda a, b: fn(a, b, k), x, y, np.bool_)


def where(c: T, x: T, y: T) -> T:
    k = x.kind
    return map3(lambda cc, a, b: ite(cc, a, b, k), c, x, y, x.dtype)


def cast(x: T, dst, domain) -> T:
    dst = np.dtype(dst)
    if dst == x.dtype:
        return x
    return map1(lambda a: cast_elem(a, x.dtype, dst, domain), x, dst)


def zero_of(dtype):
    k = kind_of(dtype)
    return {"b": False, "i": 0, "f": 0.0}[k]


def one_of(dtype):
    k = kind_of(dtype)
    return {"b": True, "i": 1, "f": 1.0}[k]


def matmul_core(x: T, y: T, dtype=None) -> T:
    """numpy.matmul semantics on object arrays with left-to-right accumulation."""
    dt = np.dtype(dtype or x.dtype)
    k = kind_of(dt)
    xa, ya = x.a, y.a
    x1 = xa.ndim == 1
    y1 = ya.ndim == 1
    if x1:
        xa = xa[None, :]
    if y1:
        ya = ya[:, None]
    bshape = np.broadcast_shapes(xa.shape[:-2], ya.shape[:-2])
    xa = np.broadcast_to(xa, bshape + xa.shape[-2:])
    ya = np.broadcast_to(ya, bshape + ya.shape[-2:])
    m, kk = xa.shape[-2:]
    k2, n = ya.shape[-2:]
    if kk != k2:
        raise ShapeMismatch(f"MatMul/Gemm inner dimensions differ: {kk} vs {k2}")
    out = _obj(bshape + (m, n))
    if k == "i":
        mulf = lambda a, b: i_mul(a, b, dt)
        addf = lambda a, b: i_add(a, b, dt)
    elif k == "f":
        mulf, addf = f_mul, f_add
    else:
        mulf, addf = b_and, b_or
    for bidx in (np.ndindex(*bshape) if bshape else [()]):
        X, Y = xa[bidx], ya[bidx]
        for i in range(m):
            for j in range(n):
                acc = zero_of(dt)
                for t in range(kk):
                    acc = addf(acc, mulf(X[i, t], Y[t, j]))
                out[bidx + (i, j)] = acc
    if x1 and y1:
        out = out.reshape(bshape)
    elif x1:
        out = out.reshape(bshape + (n,))
    elif y1:
        out = out.reshape(bshape + (m,))
    return T(dt, out)


def representability_axioms(tensors):
    """Inputs of a narrow float type are fixed points of the (uninterpreted) rounding to that and
    to every wider format; only emitted when a rounding function occurs in the program."""
    ax = []
    used = [n for n in ("rnd16", "rndbf16", "rnd32") if n in USED_UFS]
    if not used:
        return ax
    for t in tensors:
        if t.kind != "f":
            continue
        size = t.dtype.itemsize
        names = []
        if t.dtype.name == "float16":
            names = ["rnd16", "rnd32"]
        elif t.dtype.name == "bfloat16":
            names = ["rndbf16", "rnd32"]
        elif size == 4:
            names = ["rnd32"]
        for e in (t.a.reshape(-1) if t.a.ndim else [t.a[()]]):
            if is_sym(e):
                for n in names:
                    if n in used:
                        ax.append(_uf(n)(e) == e)
    return ax
