"""Per-element equivalence queries between two lists of symbolic tensors."""
from __future__ import annotations

import math
import time
from fractions import Fraction

import numpy as np
import z3

from . import sym as S
from .sym import T


class Stats:
    def __init__(self):
        self.identical = 0
        self.concrete_equal = 0
        self.unsat = 0
        self.sat = 0
        self.unknown = 0
        self.deduped = 0
        self.solver_s = 0.0
        self.queries = 0
        self.skipped_over_budget = 0
        self.small_box_sat = 0
        self.small_box_unsat = 0

    def as_dict(self):
        return dict(self.__dict__)

    def merge(self, d):
        for k, v in (d.as_dict() if isinstance(d, Stats) else d).items():
            setattr(self, k, getattr(self, k, 0) + v)


def _canon_key(expr):
    """structural key up to variable renaming (order of first occurrence)."""
    s = expr.sexpr()
    return s


def _vars_of(expr, acc=None, seen=None):
    acc = {} if acc is None else acc
    seen = set() if seen is None else seen
    stack = [expr]
    while stack:
        e = stack.pop()
        i = e.get_id()
        if i in seen:
            continue
        seen.add(i)
        if z3.is_const(e) and e.decl().kind() == z3.Z3_OP_UNINTERPRETED:
            acc[str(e)] = e
        else:
            stack.extend(e.children())
    return acc


def _rename_key(expr):
    vs = _vars_of(expr)
    s = expr.sexpr()
    # cheap canonicalisation: replace variable names by order of first occurrence in the string
    order = sorted(vs, key=lambda n: (s.find(n) if s.find(n) >= 0 else 1 << 30, n))
    # avoid partial replacement problems by tokenising
    import re

    toks = re.split(r"([\s()])", s)
    m = {n: f"v{i}" for i, n in enumerate(order)}
    m2 = {("|" + n + "|"): v for n, v in m.items()}
    return "".join(m.get(t, m2.get(t, t)) for t in toks)


def uf_instance_axioms(exprs):
    """Sound instance axioms for the uninterpreted transcendentals occurring in `exprs`
    (positivity / range / monotonic anchors / oddness).  They only remove spurious models."""
    seen, apps = set(), []
    stack = list(exprs)
    while stack:
        e = stack.pop()
        i = e.get_id()
        if i in seen:
            continue
        seen.add(i)
        if z3.is_app(e) and e.decl().kind() == z3.Z3_OP_UNINTERPRETED and e.num_args() >= 1:
            apps.append(e)
        stack.extend(e.children())
    ax = []
    by_name = {}
    for a in apps:
        name = a.decl().name()
        by_name.setdefault(name, []).append(a)
        t = a.arg(0)
        if name == "uf_exp":
            ax += [a > 0, z3.Implies(t >= 0, a >= 1), z3.Implies(t <= 0, a <= 1), a >= 1 + t]
        elif name == "uf_log":
            ax += [z3.Implies(t >= 1, a >= 0), z3.Implies(z3.And(t > 0, t <= 1), a <= 0), z3.Implies(t > 0, a <= t - 1)]
        elif name == "uf_sqrt":
            ax += [z3.Implies(t >= 0, z3.And(a >= 0, a * a == t))]
        elif name in ("uf_tanh", "uf_erf"):
            ax += [a > -1, a < 1, z3.Implies(t >= 0, a >= 0), z3.Implies(t <= 0, a <= 0)]
            # saturation ladder (tanh(10) = 1 - 4.1e-9, tanh(20) = 1 - 8.5e-18; erf(4) = 1 - 1.54e-8,
            # erf(6) = 1 - 2.15e-17): x * (f(c1 x) - f(c2 x)) stays small for large x
            for thr, eps in (((10, 4.2e-9), (20, 8.6e-18)) if name == "uf_tanh" else ((4, 1.6e-8), (6, 2.2e-17))):
                e = z3.RealVal(Fraction(eps))
                ax += [z3.Implies(t >= thr, a >= 1 - e), z3.Implies(t <= -thr, a <= -1 + e)]
        elif name in ("uf_sin", "uf_cos"):
            ax += [a >= -1, a <= 1]
        elif name == "uf_atan":
            ax += [z3.Implies(t >= 0, a >= 0), z3.Implies(t <= 0, a <= 0)]
    # monotonicity / injectivity between pairs of applications of the same increasing function
    for name in ("uf_exp", "uf_tanh", "uf_erf", "uf_atan", "uf_log", "uf_sqrt"):
        L = by_name.get(name, [])[:6]
        for i in range(len(L)):
            for j in range(i + 1, len(L)):
                x, y = L[i].arg(0), L[j].arg(0)
                if name in ("uf_log", "uf_sqrt"):
                    ax.append(z3.Implies(z3.And(x > 0, y > 0, x <= y), L[i] <= L[j]))
                    ax.append(z3.Implies(z3.And(x > 0, y > 0, y <= x), L[j] <= L[i]))
                else:
                    ax.append(z3.Implies(x <= y, L[i] <= L[j]))
                    ax.append(z3.Implies(y <= x, L[j] <= L[i]))
    # Lipschitz bounds (and their odd counterparts): constants rounded differently on the two sides
    # give arguments that differ by ~1e-8, which must not become an arbitrary difference of f
    def _abs(v):
        return z3.If(v >= 0, v, -v)

    for name, lip in (("uf_tanh", 1.0), ("uf_erf", 1.1284), ("uf_atan", 1.0), ("uf_sin", 1.0), ("uf_cos", 1.0)):
        L = by_name.get(name, [])[:5]
        for i in range(len(L)):
            for j in range(i + 1, len(L)):
                x, y = L[i].arg(0), L[j].arg(0)
                ax.append(_abs(L[i] - L[j]) <= z3.RealVal(lip) * _abs(x - y))
                if name != "uf_cos":
                    ax.append(_abs(L[i] + L[j]) <= z3.RealVal(lip) * _abs(x + y))
                else:
                    ax.append(_abs(L[i] - L[j]) <= _abs(x + y))  # cos is even
    # odd functions: f(-t) = -f(t) for syntactically negated arguments
    for name in ("uf_tanh", "uf_erf", "uf_atan", "uf_sin"):
        L = by_name.get(name, [])[:6]
        for i in range(len(L)):
            for j in range(i + 1, len(L)):
                ax.append(z3.Implies(L[i].arg(0) == -L[j].arg(0), L[i] == -L[j]))
    return ax


def differs_expr(a, b, kind, tau):
    """z3 Bool: elements a (candidate) and b (reference) differ by the comparator."""
    if kind == "b":
        return z3.Xor(S.to_z3_bool(a), S.to_z3_bool(b))
    if kind == "i":
        return S.to_z3_int(a) != S.to_z3_int(b)
    A, B = S.to_z3_real(a), S.to_z3_real(b)
    if tau == 0:
        return A != B
    d = A - B
    absd = z3.If(d >= 0, d, -d)
    absb = z3.If(B >= 0, B, -B)
    return absd > z3.RealVal(Fraction(tau)) * (1 + absb)


def concrete_differs(a, b, kind, tau):
    if kind in "bi":
        return (bool(a) != bool(b)) if kind == "b" else (int(a) != int(b))
    a, b = float(a), float(b)
    if math.isnan(a) or math.isnan(b):
        return not (math.isnan(a) and math.isnan(b))
    if math.isinf(a) or math.isinf(b):
        return a != b
    return abs(a - b) > max(tau, 1e-6) * (1 + abs(b))


class Candidate:
    def __init__(self, out_index, elem_index, model, what="value"):
        self.out_index = out_index
        self.elem_index = elem_index
        self.model = model  # z3 model
        self.what = what


def model_inputs(model, input_tensors):
    """z3 model -> list of numpy arrays for the given symbolic input tensors."""
    arrs = []
    for t in input_tensors:
        flat = []
        for e in t.a.reshape(-1) if t.a.ndim else [t.a[()]]:
            if not S.is_sym(e):
                flat.append(e)
                continue
            if model[e] is None:
                # variable irrelevant to the query: benign default
                flat.append({"b": False, "i": 1, "f": 0.75}[t.kind])
                continue
            v = model.eval(e, model_completion=True)
            if t.kind == "b":
                flat.append(z3.is_true(v))
            elif t.kind == "i":
                flat.append(v.as_long())
            else:
                if z3.is_rational_value(v):
                    flat.append(float(Fraction(v.numerator_as_long(), v.denominator_as_long())))
                elif z3.is_algebraic_value(v):
                    flat.append(float(v.approx(20).as_fraction()))
                else:
                    flat.append(0.0)
        if t.kind == "b":
            a = np.array(flat, dtype=bool)
        elif t.kind == "i":
            a = np.array(flat, dtype=np.int64).astype(t.dtype)
        else:
            a = np.array(flat, dtype=np.float64).astype(t.dtype if t.dtype.kind == "f" else np.float32)
        arrs.append(a.reshape(t.shape))
    return arrs


SMALL_BOX = 12
RLIMIT_PER_MS = int(__import__("os").environ.get("J2OV_RLIMIT_PER_MS", "4000"))


class _Fresh:
    """Fresh solver per query: z3's incremental mode (push/pop) uses a weaker core for mixed
    Int/Real (ToInt) and non-linear problems -- probe: `round` query unknown@5s incremental, sat@0.0s fresh."""

    def __init__(self, base, timeout_ms):
        self.base = list(base)
        self.timeout_ms = int(timeout_ms)
        self.extra = []
        self._model = None

    def push(self):
        self.extra.append([])

    def pop(self):
        self.extra.pop()

    def add(self, c):
        if self.extra:
            self.extra[-1].append(c)
        else:
            self.base.append(c)

    def check(self, timeout_ms=None):
        s = z3.Solver()
        t = int(timeout_ms or self.timeout_ms)
        # wall-clock timeout plus a resource cap (probe: z3's rlimit does not bound nlsat work
        # tightly enough to replace the timeout: a 1M-unit cap still ran > 60 s)
        s.set("rlimit", t * RLIMIT_PER_MS)
        s.set("timeout", t)
        for c in self.base:
            s.add(c)
        for lvl in self.extra:
            for c in lvl:
                s.add(c)
        r = s.check()
        self._model = s.model() if str(r) == "sat" else None
        return r

    def model(self):
        return self._model


def compare_outputs(
    cand_outs,
    ref_outs,
    assumptions,
    *,
    tau=1e-3,
    timeout_ms=5000,
    max_queries=64,
    stats: Stats | None = None,
    obligations=(),
    twin=True,
    max_sat=3,
    max_unknown=2,
    budget_s=40.0,
):
    """Returns dict(status, candidates[], detail).  status in
    {'proved','sat','inconclusive','shape_mismatch'}; twin_ok bool."""
    st = stats if stats is not None else Stats()
    res = {"status": "proved", "candidates": [], "detail": [], "twin_ok": None, "partial": False}
    if len(cand_outs) != len(ref_outs):
        res["status"] = "shape_mismatch"
        res["detail"].append(f"output count {len(cand_outs)} vs {len(ref_outs)}")
        return res
    for i, (a, b) in enumerate(zip(cand_outs, ref_outs)):
        if a.shape != b.shape:
            res["status"] = "shape_mismatch"
            res["detail"].append(f"output {i}: shape {a.shape} vs {b.shape}")
            return res
        if a.kind != b.kind:
            res["status"] = "shape_mismatch"
            res["detail"].append(f"output {i}: dtype class {a.dtype} vs {b.dtype}")
            return res
    solver = _Fresh(list(assumptions) + list(S.SPECIAL_AXIOMS), timeout_ms)
    seen_keys = {}
    unknown = 0
    t_begin = time.time()
    twin_target = None
    # runtime obligations of the candidate (e.g. Gather index in range)
    for ob, desc in obligations:
        st.queries += 1
        t0 = time.time()
        solver.push()
        solver.add(z3.Not(ob))
        r = solver.check()
        st.solver_s += time.time() - t0
        if str(r) == "sat":
            st.sat += 1
            res["candidates"].append(Candidate(-1, -1, solver.model(), what=f"obligation: {desc}"))
            res["status"] = "sat"
        elif str(r) == "unknown":
            st.unknown += 1
            unknown += 1
        else:
            st.unsat += 1
        solver.pop()
    nq = 0
    for oi, (a, b) in enumerate(zip(cand_outs, ref_outs)):
        kind = b.kind
        af = a.a.reshape(-1) if a.a.ndim else [a.a[()]]
        bf = b.a.reshape(-1) if b.a.ndim else [b.a[()]]
        for ei, (x, y) in enumerate(zip(af, bf)):
            xs, ys = S.is_sym(x), S.is_sym(y)
            if not xs and not ys:
                if concrete_differs(x, y, kind, tau):
                    res["status"] = "sat"
                    res["candidates"].append(Candidate(oi, ei, None, what=f"constant {x!r} vs {y!r}"))
                else:
                    st.concrete_equal += 1
                continue
            X, Y = S.to_z3(x, kind), S.to_z3(y, kind)
            if X.eq(Y):
                st.identical += 1
                continue
            if nq >= max_queries or unknown >= max_unknown or (time.time() - t_begin) > budget_s:
                st.skipped_over_budget += 1
                res["partial"] = True
                continue
            Xs, Ys = z3.simplify(X), z3.simplify(Y)
            if Xs.eq(Ys):
                st.identical += 1
                continue
            if twin_target is None:
                twin_target = (Ys, kind)
            q = differs_expr(Xs, Ys, kind, tau)
            key = _rename_key(q)
            if key in seen_keys:
                st.deduped += 1
                continue
            nq += 1
            seen_keys[key] = True
            st.queries += 1
            t0 = time.time()
            r = None
            q_raw = differs_expr(X, Y, kind, tau)
            if kind == "f":
                solver.push()
                for axm in uf_instance_axioms([X, Y]):
                    solver.add(axm)
            half = max(500, int(timeout_ms) // 2)
            if kind == "f" and tau:
                # stage 1: exact disequality on the raw terms (cheap for discrete mismatches such as
                # rounding modes); unsat closes the obligation, a model that already exceeds the
                # tolerance is a candidate
                solver.push()
                solver.add(X != Y)
                r1 = str(solver.check(half))
                if r1 == "unsat":
                    r = "unsat"
                elif r1 == "sat":
                    m1 = solver.model()
                    if z3.is_true(m1.eval(q_raw, model_completion=True)):
                        r = "sat"
                        solver.pop()
                        solver.push()
                        solver.add(z3.And(*[v == m1.eval(v, model_completion=True) for v in _vars_of(q_raw).values()]) if _vars_of(q_raw) else z3.BoolVal(True))
                        if str(solver.check(half)) != "sat":
                            r = None
                if r is None:
                    solver.pop()
            if r is None:
                # stage 2: tolerance query on raw terms; stage 3: on simplified terms
                solver.push()
                solver.add(q_raw)
                r = str(solver.check())
                if r == "unknown":
                    solver.pop()
                    solver.push()
                    solver.add(q)
                    r = str(solver.check(half))
                if r == "unknown":
                    # bounded fallback (stated bound): integer inputs restricted to a small box; a
                    # model found here is a genuine candidate, `unsat` only closes the box
                    ivars = [v for v in _vars_of(q_raw).values() if z3.is_int(v)]
                    if ivars:
                        solver.pop()
                        solver.push()
                        solver.add(q_raw)
                        solver.add(z3.And(*[z3.And(v >= -SMALL_BOX, v <= SMALL_BOX) for v in ivars]))
                        r2 = str(solver.check())
                        if r2 == "sat":
                            r = "sat"
                            st.small_box_sat = getattr(st, "small_box_sat", 0) + 1
                        elif r2 == "unsat":
                            st.small_box_unsat = getattr(st, "small_box_unsat", 0) + 1
            st.solver_s += time.time() - t0
            if r == "unsat":
                st.unsat += 1
            elif r == "sat":
                st.sat += 1
                if len(res["candidates"]) < max_sat:
                    res["candidates"].append(Candidate(oi, ei, solver.model()))
                res["status"] = "sat"
            else:
                st.unknown += 1
                unknown += 1
            solver.pop()
            if kind == "f":
                solver.pop()
    if twin and twin_target is not None:
        # vacuity twin: the reference element perturbed must be distinguishable
        Ys, kind = twin_target
        if kind == "b":
            pert = z3.Not(Ys)
        elif kind == "i":
            pert = Ys + 1
        else:
            pert = Ys + z3.If(Ys >= 0, Ys, -Ys) + 1
        solver.push()
        solver.add(differs_expr(pert, Ys, kind, tau))
        t0 = time.time()
        r = str(solver.check())
        st.solver_s += time.time() - t0
        solver.pop()
        res["twin_ok"] = r == "sat"
        if r == "unsat":
            res["status"] = "vacuous"
    if res["status"] == "proved" and unknown:
        res["status"] = "inconclusive"
    res["unknown"] = unknown
    return res
