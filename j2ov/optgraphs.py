"""Generated optimizer-pattern neighbourhoods (family A3): small valid ONNX models built
with onnx.helper around every rewrite of ir_optimizations.py."""
from __future__ import annotations

import itertools

import numpy as np
import onnx
from onnx import TensorProto as TP
from onnx import helper, numpy_helper


class GB:
    def __init__(self, opset=23):
        self.opset = opset
        self.inputs = []
        self.inits = []
        self.nodes = []
        self.outputs = []
        self.types = {}
        self.n = 0

    def inp(self, name, dtype, shape):
        self.inputs.append(helper.make_tensor_value_info(name, dtype, list(shape)))
        self.types[name] = dtype
        return name

    def const(self, arr, name=None):
        name = name or f"c{len(self.inits)}"
        self.inits.append(numpy_helper.from_array(np.asarray(arr), name))
        return name

    def node(self, op, ins, n_out=1, name=None, **attrs):
        outs = [f"v{self.n + i}" for i in range(n_out)]
        self.n += n_out
        self.nodes.append(helper.make_node(op, list(ins), outs, name=name or f"n{len(self.nodes)}_{op}", **attrs))
        return outs[0] if n_out == 1 else outs

    def out(self, name):
        if name not in self.outputs:
            self.outputs.append(name)

    def build(self):
        g = helper.make_graph(self.nodes, "g", self.inputs, [helper.make_empty_tensor_value_info(o) for o in self.outputs], initializer=self.inits)
        m = helper.make_model(g, opset_imports=[helper.make_opsetid("", self.opset)], ir_version=10)
        m = onnx.shape_inference.infer_shapes(m, strict_mode=True, data_prop=True)
        # graph outputs must carry types: copy from inferred value_info
        vi = {v.name: v for v in list(m.graph.value_info) + list(m.graph.input)}
        for o in m.graph.output:
            if o.name in vi and not o.type.HasField("tensor_type"):
                o.CopyFrom(vi[o.name])
        onnx.checker.check_model(m, full_check=True)
        return m


def inv_perm(p):
    q = [0] * len(p)
    for i, v in enumerate(p):
        q[v] = i
    return q


F = TP.FLOAT
DIMS3 = (2, 3, 4)


def _chains():
    return [(), ("Relu",), ("Neg",), ("Add",), ("Max",), ("Relu", "Add"), ("Min", "Relu"), ("Mul",), ("Add", "Relu"), ("Sub", "Abs"), ("Tanh", "Mul"), ("Cast16",)]


def _apply_chain(g, cur, chain, cur_shape, side_kind, sides):
    mids = []
    for op in chain:
        if op in ("Add", "Mul", "Sub", "Div", "Max", "Min"):
            if side_kind == "scalar":
                s = g.const(np.array(1.5, dtype=np.float32))
            elif side_kind == "vec":
                s = g.const(np.arange(1, cur_shape[-1] + 1, dtype=np.float32) / 2)
            elif side_kind == "full":
                s = sides["full"](cur_shape)
            else:
                s = sides["transposed"](cur_shape)
            cur = g.node(op, [cur, s])
        elif op == "Cast16":
            cur = g.node("Cast", [g.node("Cast", [cur], to=TP.FLOAT16)], to=TP.FLOAT)
        else:
            cur = g.node(op, [cur])
        mids.append(cur)
    return cur, mids


def gen_t_chain_t(tier):
    """Transpose -> elementwise chain -> Transpose"""
    perms = list(itertools.permutations(range(3)))
    chains = _chains() if tier == "thorough" else _chains()[:7]
    side_kinds = ("scalar", "vec", "full", "transposed")
    for p1 in perms:
        if list(p1) == [0, 1, 2]:
            continue
        for second in ("inverse", "same"):
            p2 = inv_perm(p1) if second == "inverse" else list(p1)
            for chain in chains:
                has_bin = any(c in ("Add", "Mul", "Sub", "Max", "Min") for c in chain)
                for sk in side_kinds if has_bin else ("scalar",):
                    for outs in ("final", "final+t1", "final+mid", "final+t1+mid"):
                        if "mid" in outs and not chain:
                            continue
                        for fan in (1, 2, 3, 4, 5):
                            if fan >= 2 and tier != "thorough" and sk not in ("scalar", "transposed"):
                                continue
                            if fan >= 3 and outs != "final":
                                continue
                            name = f"t_chain_t/p{''.join(map(str, p1))}-{second}/{'.'.join(chain) or 'none'}/{sk}/{outs}/fan{fan}"

                            def build(p1=p1, p2=p2, chain=chain, sk=sk, outs=outs, fan=fan):
                                g = GB()
                                x = g.inp("x", F, DIMS3)
                                t1 = g.node("Transpose", [x], perm=list(p1))
                                tshape = tuple(DIMS3[i] for i in p1)
                                extra_in = {}

                                def full(shape):
                                    return g.inp("s_full", F, shape)

                                def transposed(shape):
                                    y = g.inp("y", F, DIMS3)
                                    return g.node("Transpose", [y], perm=list(p1))

                                cur, mids = _apply_chain(g, t1, chain, tshape, sk, {"full": full, "transposed": transposed})
                                fin = g.node("Transpose", [cur], perm=list(p2))
                                g.out(fin)
                                if "t1" in outs:
                                    g.out(t1)
                                if "mid" in outs and mids:
                                    g.out(mids[-1])
                                src = mids[-1] if mids else t1
                                other = [q for q in ([0, 2, 1], [1, 0, 2], [2, 1, 0]) if q != list(p2) and q != list(p1)][0]
                                if fan == 2:
                                    g.out(g.node("Abs", [src]))
                                elif fan == 3:
                                    g.out(g.node("Transpose", [src], perm=other))
                                elif fan == 4:
                                    g.out(g.node("Reshape", [src, g.const(np.array([-1], dtype=np.int64))]))
                                elif fan == 5:
                                    g.out(g.node("Transpose", [t1], perm=other))
                                return g.build()

                            yield name, build


def gen_r_chain_r(tier):
    """Reshape -> elementwise chain -> Reshape (concrete and symbolic dims)"""
    cases = [
        ((2, 3, 4), (6, 4), (2, 3, 4)),
        ((2, 3, 4), (6, 4), (4, 6)),
        ((2, 3, 4), (24,), (2, 3, 4)),
        ((2, 3, 4), (24,), (4, 3, 2)),
        ((2, 3, 4), (2, 12), (2, 3, 4)),
        ((2, 3, 4), (2, 12), (3, 2, 4)),
        (("B", 3, 4), (-1, 4), (-1, 3, 4)),
        (("B", "N"), (-1,), ("shape_of_x",)),
        (("B", "N"), (-1,), ("swap",)),
        (("B", 4), (-1,), (4, -1)),
        (("B", 4), (-1,), (-1, 4)),
    ]
    chains = [(), ("Relu",), ("Add",), ("Neg", "Mul")]
    for ci, (shape, s1, s2) in enumerate(cases):
        for chain in chains:
            for outs in ("final", "final+r1", "final+mid"):
                if "mid" in outs and not chain:
                    continue
                for fan in (1, 2):
                    name = f"r_chain_r/case{ci}/{'.'.join(chain) or 'none'}/{outs}/fan{fan}"

                    def build(shape=shape, s1=s1, s2=s2, chain=chain, outs=outs, fan=fan):
                        g = GB()
                        x = g.inp("x", F, shape)
                        r1 = g.node("Reshape", [x, g.const(np.array(s1, dtype=np.int64))])
                        cur = r1
                        mids = []
                        for op in chain:
                            if op in ("Add", "Mul"):
                                cur = g.node(op, [cur, g.const(np.array(2.0, dtype=np.float32))])
                            else:
                                cur = g.node(op, [cur])
                            mids.append(cur)
                        if s2 == ("shape_of_x",):
                            shp = g.node("Shape", [x])
                        elif s2 == ("swap",):
                            sh = g.node("Shape", [x])
                            a = g.node("Gather", [sh, g.const(np.array([1, 0], dtype=np.int64))], axis=0)
                            shp = a
                        else:
                            shp = g.const(np.array(s2, dtype=np.int64))
                        fin = g.node("Reshape", [cur, shp])
                        g.out(fin)
                        if "r1" in outs:
                            g.out(r1)
                        if "mid" in outs and mids:
                            g.out(mids[-1])
                        if fan == 2:
                            g.out(g.node("Abs", [mids[-1] if mids else r1]))
                        return g.build()

                    yield name, build


CAST_TYPES = {
    "f32": TP.FLOAT, "f16": TP.FLOAT16, "f64": TP.DOUBLE, "i32": TP.INT32, "i64": TP.INT64, "i8": TP.INT8,
    "u8": TP.UINT8, "bool": TP.BOOL, "i16": TP.INT16,
}


def gen_cast_pair(tier):
    pairs = [("f32", "f16"), ("f32", "f64"), ("f16", "f32"), ("i32", "i64"), ("i64", "i32"), ("i32", "f32"), ("i32", "f64"),
             ("f32", "i32"), ("i32", "i8"), ("i8", "i32"), ("u8", "i8"), ("u8", "i32"), ("bool", "i32"), ("bool", "f32"),
             ("i32", "bool"), ("i64", "f64"), ("i16", "f16"), ("u8", "f16"), ("f32", "f32"), ("i32", "i32")]
    for a, b in pairs:
        for variant in ("plain", "mid_out", "mid_used", "nested", "range_i64_i32", "two_consumers"):
            if variant == "range_i64_i32" and (a, b) != ("i64", "i32"):
                continue
            name = f"cast_pair/{a}-{b}-{a}/{variant}"

            def build(a=a, b=b, variant=variant):
                g = GB()
                if variant == "range_i64_i32":
                    n = g.inp("n", TP.INT64, ())
                    x = g.node("Range", [g.const(np.array(0, dtype=np.int64)), g.const(np.array(5, dtype=np.int64)), g.const(np.array(1, dtype=np.int64))])
                    x = g.node("Add", [x, n]) if False else x
                    g.out(g.node("Add", [g.node("Cast", [g.node("Cast", [x], to=TP.INT32)], to=TP.INT64), n]))
                    return g.build()
                x = g.inp("x", CAST_TYPES[a], (3,))
                c1 = g.node("Cast", [x], to=CAST_TYPES[b])
                c2 = g.node("Cast", [c1], to=CAST_TYPES[a])
                g.out(c2)
                if variant == "mid_out":
                    g.out(c1)
                elif variant == "mid_used":
                    g.out(g.node("Identity", [c1]))
                elif variant == "two_consumers":
                    g.out(g.node("Cast", [c1], to=CAST_TYPES[a]))
                elif variant == "nested":
                    cond = g.inp("c", TP.BOOL, ())
                    then_g = helper.make_graph([helper.make_node("Identity", [c1], ["tb"])], "then", [], [helper.make_tensor_value_info("tb", CAST_TYPES[b], [3])])
                    else_g = helper.make_graph([helper.make_node("Identity", [c1], ["eb"])], "else", [], [helper.make_tensor_value_info("eb", CAST_TYPES[b], [3])])
                    g.out(g.node("If", [cond], then_branch=then_g, else_branch=else_g))
                return g.build()

            yield name, build


def gen_t_reduce_t(tier):
    perms = [(0, 2, 1), (1, 0, 2), (2, 0, 1), (1, 2, 0), (2, 1, 0)]
    for op in ("ReduceMean", "ReduceSum", "ReduceMax"):
        for p1 in perms:
            for axes in ([1], [2], [0], [1, 2], [0, 1]):
                for keep in (1, 0):
                    for outs in ("final", "final+t1", "final+red", "final+red2"):
                        name = f"t_reduce_t/{op}/p{''.join(map(str, p1))}/ax{''.join(map(str, axes))}/k{keep}/{outs}"

                        def build(op=op, p1=p1, axes=axes, keep=keep, outs=outs):
                            g = GB()
                            x = g.inp("x", F, DIMS3)
                            t1 = g.node("Transpose", [x], perm=list(p1))
                            r = g.node(op, [t1, g.const(np.array(axes, dtype=np.int64))], keepdims=keep)
                            if keep:
                                fin = g.node("Transpose", [r], perm=inv_perm(p1))
                            else:
                                rank = 3 - len(axes)
                                fin = g.node("Transpose", [r], perm=list(range(rank))[::-1]) if rank > 1 else g.node("Identity", [r])
                            g.out(fin)
                            if "t1" in outs:
                                g.out(t1)
                            if "red2" in outs:
                                g.out(g.node("Neg", [r]))  # the reduced value has a second consumer
                            elif "red" in outs:
                                g.out(r)  # the reduced value itself is observed
                            return g.build()

                        yield name, build


def gen_add_forest(tier):
    perms = [(0, 2, 1), (1, 0, 2), (2, 0, 1), (2, 1, 0)]
    for p1 in perms:
        for second in ("inverse", "same"):
            for shape_kind in ("same_perm", "mixed_perm", "three", "const_side", "shared"):
                for outs in ("final", "final+sum", "final+ta", "final+xT_after", "final+xT_before", "final+xrelu", "final+xreduce", "final+xreshape", "final+xT_on_ta"):
                    name = f"add_forest/p{''.join(map(str, p1))}-{second}/{shape_kind}/{outs}"

                    def build(p1=p1, second=second, shape_kind=shape_kind, outs=outs):
                        g = GB()
                        a = g.inp("a", F, DIMS3)
                        b = g.inp("b", F, DIMS3)
                        ta = g.node("Transpose", [a], perm=list(p1))
                        if shape_kind == "mixed_perm":
                            # b is given already in transposed layout
                            tshape = tuple(DIMS3[i] for i in p1)
                            g.inputs[-1].CopyFrom(helper.make_tensor_value_info("b", F, list(tshape)))
                            tb = b
                        elif shape_kind == "shared":
                            tb = ta
                        else:
                            tb = g.node("Transpose", [b], perm=list(p1))
                        s = g.node("Add", [ta, tb])
                        if shape_kind == "three":
                            c = g.inp("c", F, DIMS3)
                            s = g.node("Add", [s, g.node("Transpose", [c], perm=list(p1))])
                        if shape_kind == "const_side":
                            s = g.node("Add", [s, g.const(np.array(0.5, dtype=np.float32))])
                        p2 = inv_perm(p1) if second == "inverse" else list(p1)
                        other = [q for q in ([0, 2, 1], [1, 0, 2], [2, 1, 0]) if q != p2 and q != list(p1)][0]
                        if outs == "final+xT_before":
                            g.out(g.node("Transpose", [s], perm=other))
                        fin = g.node("Transpose", [s], perm=p2)
                        g.out(fin)
                        if outs == "final+sum":
                            g.out(s)
                        if outs == "final+ta":
                            g.out(ta)
                        if outs == "final+xT_after":
                            g.out(g.node("Transpose", [s], perm=other))
                        if outs == "final+xrelu":
                            g.out(g.node("Relu", [s]))
                        if outs == "final+xreduce":
                            g.out(g.node("ReduceSum", [s, g.const(np.array([1], dtype=np.int64))], keepdims=0))
                        if outs == "final+xreshape":
                            g.out(g.node("Reshape", [s, g.const(np.array([-1], dtype=np.int64))]))
                        if outs == "final+xT_on_ta":
                            g.out(g.node("Transpose", [ta], perm=other))
                        return g.build()

                    yield name, build


def gen_misc(tier):
    # identity reshapes
    for ci, (shape, tgt) in enumerate([((2, 3), (2, 3)), ((2, 3), (3, 2)), (("B", 3), (-1, 3)), (("B", 3), (0, 3)), (("B", "N"), (0, -1)), (("B", "N"), (-1, 0)), ((2, 3), (-1,)), (("B", 3), (3, -1))]):
        def build(shape=shape, tgt=tgt):
            g = GB()
            x = g.inp("x", F, shape)
            r = g.node("Reshape", [g.node("Relu", [x]), g.const(np.array(tgt, dtype=np.int64))])
            g.out(g.node("Neg", [r]))
            return g.build()

        yield f"identity_reshape/case{ci}", build
    # CSE: duplicates incl. stochastic ops
    for op in ("Relu", "Add", "RandomUniformLike", "Dropout"):
        def build(op=op):
            g = GB()
            x = g.inp("x", F, (2, 3))
            if op == "Add":
                a = g.node("Add", [x, x])
                b = g.node("Add", [x, x])
            elif op == "Dropout":
                a = g.node("Dropout", [x])
                b = g.node("Dropout", [x])
            else:
                a = g.node(op, [x])
                b = g.node(op, [x])
            g.out(g.node("Sub", [a, b]))
            g.out(a)
            return g.build()

        yield f"cse/{op}", build
    # twin producers that are BOTH model outputs, one of them also behind a same-type (removable) Cast
    # that is a model output as well: cast removal + CSE must not list / define a value twice
    for twin in ("Transpose", "Relu", "Neg"):
        for cast_on in ("second", "first", "both", "roundtrip"):
            def build(twin=twin, cast_on=cast_on):
                g = GB()
                x = g.inp("x", F, DIMS3)
                kw = {"perm": [0, 2, 1]} if twin == "Transpose" else {}
                a = g.node(twin, [x], **kw)
                b = g.node(twin, [x], **kw)
                g.out(a)
                g.out(b)
                if cast_on in ("second", "both"):
                    g.out(g.node("Cast", [b], to=TP.FLOAT))
                if cast_on in ("first", "both"):
                    g.out(g.node("Cast", [a], to=TP.FLOAT))
                if cast_on == "roundtrip":
                    g.out(g.node("Cast", [g.node("Cast", [b], to=TP.DOUBLE)], to=TP.FLOAT))
                return g.build()

            yield f"twin_outputs/{twin}/{cast_on}", build
    # Mul * Sigmoid -> Swish
    for opset in (23, 24):
        for order in ("x_sig", "sig_x", "other", "shared_sig", "sig_out"):
            def build(opset=opset, order=order):
                g = GB(opset)
                x = g.inp("x", F, (3,))
                y = g.inp("y", F, (3,))
                s = g.node("Sigmoid", [x])
                if order == "x_sig":
                    m = g.node("Mul", [x, s])
                elif order == "sig_x":
                    m = g.node("Mul", [s, x])
                elif order == "other":
                    m = g.node("Mul", [y, s])
                elif order == "shared_sig":
                    m = g.node("Mul", [x, s])
                    g.out(g.node("Add", [s, y]))
                else:
                    m = g.node("Mul", [x, s])
                    g.out(s)
                g.out(m)
                return g.build()

            yield f"mul_sigmoid/opset{opset}/{order}", build
    # Mul(x, Reciprocal(Sqrt(y))) / rsqrt pattern
    for variant in ("recip_sqrt", "div1_sqrt", "pow_m05", "shared"):
        def build(variant=variant):
            g = GB()
            x = g.inp("x", F, (3,))
            y = g.inp("y", F, (3,))
            sq = g.node("Sqrt", [y])
            if variant == "recip_sqrt" or variant == "shared":
                r = g.node("Reciprocal", [sq])
            elif variant == "div1_sqrt":
                r = g.node("Div", [g.const(np.array(1.0, dtype=np.float32)), sq])
            else:
                r = g.node("Pow", [y, g.const(np.array(-0.5, dtype=np.float32))])
            g.out(g.node("Mul", [x, r]))
            if variant == "shared":
                g.out(g.node("Add", [r, x]))
            return g.build()

        yield f"mul_rsqrt/{variant}", build
    # Dropout training_mode constant / Not
    for variant in ("false_const", "not_true", "true_const_ratio0", "graph_input", "shared_flag"):
        def build(variant=variant):
            g = GB()
            x = g.inp("x", F, (3,))
            ratio = g.const(np.array(0.0 if variant == "true_const_ratio0" else 0.5, dtype=np.float32))
            if variant == "false_const":
                tm = g.const(np.array(False))
            elif variant == "true_const_ratio0":
                tm = g.const(np.array(True))
            elif variant == "not_true":
                tm = g.node("Not", [g.const(np.array(True))])
            elif variant == "graph_input":
                det = g.inp("deterministic", TP.BOOL, ())
                tm = g.node("Not", [det])
            else:
                tm = g.node("Not", [g.const(np.array(True))])
                g.out(g.node("Identity", [tm]))
            g.out(g.node("Dropout", [x, ratio, tm]))
            return g.build()

        yield f"dropout_not/{variant}", build
    # dead nodes / orphan transposes / unused inputs
    for variant in ("dead_chain", "orphan_transpose", "unused_input", "unused_positional", "output_is_input", "dup_output", "transpose_only_output"):
        def build(variant=variant):
            g = GB()
            x = g.inp("in_0", F, (2, 3))
            if variant == "dead_chain":
                g.node("Neg", [g.node("Relu", [x])])
                g.out(g.node("Abs", [x]))
            elif variant == "orphan_transpose":
                g.node("Transpose", [x], perm=[1, 0])
                g.out(g.node("Abs", [x]))
            elif variant == "unused_input":
                g.inp("extra", F, (2,))
                g.out(g.node("Abs", [x]))
            elif variant == "unused_positional":
                g.inp("in_1", F, (2,))
                g.out(g.node("Abs", [x]))
            elif variant == "output_is_input":
                g.out(g.node("Identity", [x]))
                g.out(g.node("Abs", [x]))
            elif variant == "dup_output":
                a = g.node("Abs", [x])
                g.out(a)
                g.out(g.node("Identity", [a]))
            else:
                g.out(g.node("Transpose", [x], perm=[1, 0]))
            return g.build()

        yield f"dce/{variant}", build
    # chains of transposes (pair folding through multi-consumer / chain)
    for p in ([1, 0, 2], [2, 0, 1]):
        for n in (2, 3, 4):
            def build(p=p, n=n):
                g = GB()
                x = g.inp("x", F, DIMS3)
                cur = x
                for _ in range(n):
                    cur = g.node("Transpose", [cur], perm=list(p))
                g.out(cur)
                return g.build()

            yield f"t_chain/p{''.join(map(str, p))}/n{n}", build
    # symbolic transposes / reshape mixes
    for variant in ("sym_transpose_pair", "sym_transpose_relu_out"):
        def build(variant=variant):
            g = GB()
            x = g.inp("x", F, ("B", 3, "N"))
            t = g.node("Transpose", [x], perm=[0, 2, 1])
            y = g.node("Relu", [t])
            g.out(g.node("Transpose", [y], perm=[0, 2, 1]))
            if variant.endswith("relu_out"):
                g.out(y)
            return g.build()

        yield f"sym/{variant}", build


def gen_dag(tier):
    """Pseudo-randomly generated small DAGs over the rewrite vocabulary (Transpose with inverse,
    self-inverse and unrelated permutations, Reshape to/from flat, elementwise unary/binary,
    Cast pairs, ReduceSum), every value free to have several consumers of different kinds and to be
    a graph output.  Deterministic: graph i is generated from seed i (+ VERIF_SEED rotation for an
    extra slice)."""
    import os
    import random

    n = 1200 if tier == "quick" else 8000
    try:
        rot = int(os.environ.get("VERIF_SEED", "0"))
    except ValueError:
        rot = 0
    seeds = list(range(n)) + [10_000_000 + rot * 1000 + i for i in range(200 if tier == "quick" else 1000)]
    PERMS = [(1, 2, 0), (2, 0, 1), (0, 2, 1), (1, 0, 2), (2, 1, 0)]

    def make(seed):
        def build():
            rng = random.Random(seed)
            g = GB()
            vals = []  # (name, shape, dtype)
            x = g.inp("x", F, DIMS3)
            vals.append((x, DIMS3, F))
            if rng.random() < 0.6:
                y = g.inp("y", F, DIMS3)
                vals.append((y, DIMS3, F))
            k = rng.choice([3, 4, 4, 5, 5, 6])
            consumed = set()
            for _ in range(k):
                kind = rng.choice(["T", "T", "T", "un", "bin", "bin", "R", "cast", "red"])
                cands3 = [v for v in vals if len(v[1]) == 3 and v[2] == F]
                if kind == "T" and cands3:
                    v = rng.choice(cands3[-3:] if rng.random() < 0.7 else cands3)
                    p = rng.choice(PERMS)
                    o = g.node("Transpose", [v[0]], perm=list(p))
                    vals.append((o, tuple(v[1][i] for i in p), v[2]))
                    consumed.add(v[0])
                elif kind == "un":
                    v = rng.choice([w for w in vals if w[2] == F][-3:])
                    o = g.node(rng.choice(["Relu", "Neg", "Abs", "Tanh"]), [v[0]])
                    vals.append((o, v[1], v[2]))
                    consumed.add(v[0])
                elif kind == "bin":
                    v = rng.choice([w for w in vals if w[2] == F][-3:])
                    same = [w for w in vals if w[1] == v[1] and w[2] == F]
                    if rng.random() < 0.3 or not same:
                        side = g.const(np.array(1.5, dtype=np.float32))
                        o = g.node(rng.choice(["Add", "Mul", "Sub"]), [v[0], side])
                    else:
                        w = rng.choice(same)
                        o = g.node(rng.choice(["Add", "Add", "Mul", "Sub", "Max"]), [v[0], w[0]])
                        consumed.add(w[0])
                    vals.append((o, v[1], F))
                    consumed.add(v[0])
                elif kind == "R":
                    v = rng.choice([w for w in vals if w[2] == F][-3:])
                    n_el = int(np.prod(v[1]))
                    opts_ = [t for t in [(n_el,), (2, 12), (6, 4), (4, 6), DIMS3, (4, 3, 2), (3, 8), (2, 4), (4, 2), (2, 3), (3, 2), (3, 4), (4, 3), (2, 6), (1, n_el)] if int(np.prod(t)) == n_el]
                    tgt = rng.choice(opts_)
                    o = g.node("Reshape", [v[0], g.const(np.array(tgt, dtype=np.int64))])
                    vals.append((o, tuple(tgt), F))
                    consumed.add(v[0])
                elif kind == "cast":
                    v = rng.choice(vals[-3:])
                    to = rng.choice([TP.DOUBLE, TP.FLOAT16, TP.INT32, TP.FLOAT])
                    o = g.node("Cast", [v[0]], to=to)
                    o2 = g.node("Cast", [o], to=v[2]) if rng.random() < 0.8 else None
                    vals.append((o, v[1], to))
                    if o2:
                        vals.append((o2, v[1], v[2]))
                        consumed.add(o)
                    consumed.add(v[0])
                elif kind == "red" and cands3:
                    v = rng.choice(cands3[-3:])
                    ax = rng.choice([0, 1, 2])
                    keep = rng.choice([0, 1])
                    o = g.node(rng.choice(["ReduceSum", "ReduceMean"]), [v[0], g.const(np.array([ax], dtype=np.int64))], keepdims=keep)
                    shp = tuple((1 if i == ax else d) for i, d in enumerate(v[1])) if keep else tuple(d for i, d in enumerate(v[1]) if i != ax)
                    vals.append((o, shp, F))
                    consumed.add(v[0])
            produced = [v for v in vals if v[0] not in ("x", "y")]
            if not produced:
                produced = [(g.node("Identity", [x]), DIMS3, F)]
            for v in produced:
                if v[0] not in consumed or rng.random() < 0.3:
                    g.out(v[0])
            if not g.outputs:
                g.out(produced[-1][0])
            return g.build()

        return build

    for sd in seeds:
        yield f"dag/seed{sd}", make(sd)


def _if_using(g, cond, captured, shape, dtype=F, then_op="Relu", else_op="Neg"):
    """If node whose two branches consume the OUTER value `captured` (no branch inputs in ONNX)"""
    tg = helper.make_graph([helper.make_node(then_op, [captured], ["tb"])], "then", [], [helper.make_tensor_value_info("tb", dtype, list(shape))])
    eg = helper.make_graph([helper.make_node(else_op, [captured], ["eb"])], "else", [], [helper.make_tensor_value_info("eb", dtype, list(shape))])
    return g.node("If", [cond], then_branch=tg, else_branch=eg)


def gen_captured(tier):
    """values that a control-flow body captures from the enclosing graph: the optimizer sees no
    consumer node for them in the top graph, yet they must survive every rewrite unchanged"""
    perms = [(0, 2, 1), (1, 2, 0), (2, 0, 1)]
    for p1 in perms:
        shp_t = tuple(DIMS3[i] for i in p1)
        for variant in ("t_only_in_if", "t_chain_t_mid_in_if", "t_chain_t_t1_in_if", "t_reduce_t_red_in_if", "t_in_if_and_out"):
            def build(p1=p1, shp_t=shp_t, variant=variant):
                g = GB()
                x = g.inp("x", F, DIMS3)
                c = g.inp("c", TP.BOOL, ())
                t1 = g.node("Transpose", [x], perm=list(p1))
                if variant == "t_only_in_if":
                    g.out(_if_using(g, c, t1, shp_t))
                elif variant == "t_in_if_and_out":
                    g.out(_if_using(g, c, t1, shp_t))
                    g.out(g.node("Abs", [x]))
                elif variant == "t_chain_t_mid_in_if":
                    r = g.node("Relu", [t1])
                    g.out(g.node("Transpose", [r], perm=inv_perm(p1)))
                    g.out(_if_using(g, c, r, shp_t))
                elif variant == "t_chain_t_t1_in_if":
                    r = g.node("Relu", [t1])
                    g.out(g.node("Transpose", [r], perm=inv_perm(p1)))
                    g.out(_if_using(g, c, t1, shp_t))
                else:
                    r = g.node("ReduceMean", [t1, g.const(np.array([1], dtype=np.int64))], keepdims=1)
                    g.out(g.node("Transpose", [r], perm=inv_perm(p1)))
                    rs = tuple(1 if i == 1 else d for i, d in enumerate(shp_t))
                    g.out(_if_using(g, c, r, rs))
                return g.build()

            yield f"captured/p{''.join(map(str, p1))}/{variant}", build
    for s1, s2 in (((6, 4), DIMS3), ((24,), DIMS3), ((4, 6), (2, 12))):
        for variant in ("mid_in_if", "mid_in_if_only"):
            def build(s1=s1, s2=s2, variant=variant):
                g = GB()
                x = g.inp("x", F, DIMS3 if int(np.prod(s2)) == 24 else s2)
                c = g.inp("c", TP.BOOL, ())
                r1 = g.node("Reshape", [x, g.const(np.array(s1, dtype=np.int64))])
                r2 = g.node("Reshape", [r1, g.const(np.array(s2, dtype=np.int64))])
                if variant == "mid_in_if":
                    g.out(g.node("Neg", [r2]))
                g.out(_if_using(g, c, r1, s1))
                if variant == "mid_in_if_only":
                    g.out(g.node("Abs", [r2]))
                return g.build()

            yield f"captured/reshape/{'x'.join(map(str, s1))}/{variant}", build
    # rewrites that REPLACE a producer (Mul*Sigmoid -> Swish, Mul*Reciprocal(Sqrt) -> Div, CSE twins,
    # Dropout constants): the replaced value may be captured by a body
    for opset in (23, 24):
        for variant in ("sigmoid_in_if", "mul_in_if"):
            def build(opset=opset, variant=variant):
                g = GB(opset)
                x = g.inp("x", F, (3,))
                c = g.inp("c", TP.BOOL, ())
                sg = g.node("Sigmoid", [x])
                m = g.node("Mul", [x, sg])
                g.out(m)
                g.out(_if_using(g, c, sg if variant == "sigmoid_in_if" else m, (3,), then_op="Neg", else_op="Abs"))
                return g.build()

            yield f"captured/swish/opset{opset}/{variant}", build
    for variant in ("sqrt_in_if", "recip_in_if"):
        def build(variant=variant):
            g = GB()
            x = g.inp("x", F, (3,))
            y = g.inp("y", F, (3,))
            c = g.inp("c", TP.BOOL, ())
            sq = g.node("Sqrt", [y])
            r = g.node("Reciprocal", [sq])
            g.out(g.node("Mul", [x, r]))
            g.out(_if_using(g, c, sq if variant == "sqrt_in_if" else r, (3,)))
            return g.build()

        yield f"captured/rsqrt/{variant}", build
    for variant in ("twin_in_if",):
        def build(variant=variant):
            g = GB()
            x = g.inp("x", F, (3,))
            c = g.inp("c", TP.BOOL, ())
            a = g.node("Relu", [x])
            b = g.node("Relu", [x])
            g.out(g.node("Add", [a, g.const(np.array(1.0, dtype=np.float32))]))
            g.out(_if_using(g, c, b, (3,)))
            return g.build()

        yield f"captured/cse/{variant}", build
    for a, b in (("f32", "f16"), ("i32", "i8"), ("f32", "f32")):
        def build(a=a, b=b):
            g = GB()
            x = g.inp("x", CAST_TYPES[a], (3,))
            c = g.inp("c", TP.BOOL, ())
            c1 = g.node("Cast", [x], to=CAST_TYPES[b])
            g.out(g.node("Cast", [c1], to=CAST_TYPES[a]))
            g.out(_if_using(g, c, c1, (3,), dtype=CAST_TYPES[b], then_op="Identity", else_op="Identity"))
            return g.build()

        yield f"captured/cast/{a}-{b}", build


def gen_range_cast(tier):
    """Range with constant bounds through a narrowing integer Cast round trip: the rewrite is allowed
    exactly when every emitted value fits the intermediate type"""
    narrow = {"i8": (TP.INT8, -128, 127), "u8": (TP.UINT8, 0, 255), "i16": (TP.INT16, -32768, 32767)}
    cases = []
    for nm, (tp, lo, hi) in narrow.items():
        for delta in (1, 2, 7, 100):
            for end in (hi - 1, hi, hi + 1, hi + delta, hi + 3 * delta):
                cases.append((nm, max(lo, 0), end + 1, delta))
        for delta in (-1, -3, -50):
            for end in (lo + 1, lo, lo - 1, lo + delta, lo + 3 * delta):
                cases.append((nm, 5, end - 1, delta))
        cases += [(nm, 0, 500, 7), (nm, 0, 5 * (hi + 1), hi), (nm, lo - 2, lo + 3, 1)]
    seen = set()
    for nm, start, limit, delta in cases:
        if (nm, start, limit, delta) in seen or abs((limit - start) // delta) > 4000 or (limit - start) * delta <= 0:
            continue
        seen.add((nm, start, limit, delta))
        for wrap in ("plain", "reshape"):
            def build(nm=nm, start=start, limit=limit, delta=delta, wrap=wrap):
                g = GB()
                n = g.inp("n", TP.INT64, ())
                x = g.node("Range", [g.const(np.array(start, dtype=np.int64)), g.const(np.array(limit, dtype=np.int64)), g.const(np.array(delta, dtype=np.int64))])
                if wrap == "reshape":
                    x = g.node("Reshape", [x, g.const(np.array([-1], dtype=np.int64))])
                g.out(g.node("Add", [g.node("Cast", [g.node("Cast", [x], to=narrow[nm][0])], to=TP.INT64), n]))
                return g.build()

            yield f"range_cast/{nm}/s{start}_l{limit}_d{delta}/{wrap}", build
    # every operator the REAL range proof looks through (its whitelist is read from the code under
    # test), with the operator's other operands chosen adversarially: an operator that can introduce a
    # value which is not an element of its first input (Pad's fill, Where's other branch, ...) lets a
    # value outside the intermediate type pass the proof
    try:
        import jax2onnx.converter.ir_optimizations as iro

        through = sorted(getattr(iro, "_INTEGER_VALUE_PRESERVING_OPS", ()))
    except Exception:
        through = []
    I64 = lambda v: np.array(v, dtype=np.int64)
    BIG = 2 ** 40 + 5

    def wrap_op(g, op, x, length):
        if op == "Identity":
            return g.node("Identity", [x])
        if op == "Reshape":
            return g.node("Reshape", [x, g.const(I64([1, -1]))])
        if op == "Flatten":
            return g.node("Flatten", [x], axis=0)
        if op == "Squeeze":
            return g.node("Squeeze", [g.node("Unsqueeze", [x, g.const(I64([0]))]), g.const(I64([0]))])
        if op == "Unsqueeze":
            return g.node("Unsqueeze", [x, g.const(I64([1]))])
        if op == "Transpose":
            return g.node("Transpose", [g.node("Unsqueeze", [x, g.const(I64([0]))])], perm=[1, 0])
        if op == "Expand":
            return g.node("Expand", [x, g.const(I64([2, length]))])
        if op == "Pad":
            return g.node("Pad", [x, g.const(I64([1, 2])), g.const(I64(BIG))], mode="constant")
        if op == "Where":
            return g.node("Where", [g.const(np.array([True] + [False] * (length - 1))), x, g.const(I64(BIG))])
        if op == "Concat":
            return g.node("Concat", [x, g.const(I64([BIG]))], axis=0)
        if op in ("Add", "Sub", "Mul", "Max", "Min"):
            return g.node(op, [x, g.const(I64(BIG if op != "Mul" else 2 ** 20))])
        if op in ("Neg", "Abs"):
            return g.node(op, [x])
        if op == "Slice":
            return g.node("Slice", [x, g.const(I64([0])), g.const(I64([max(1, length - 1)]))])
        if op == "Tile":
            return g.node("Tile", [x, g.const(I64([2]))])
        if op == "Gather":
            return g.node("Gather", [x, g.const(I64([0, length - 1]))], axis=0)
        if op == "ScatterND":
            return g.node("ScatterND", [x, g.const(I64([[0]])), g.const(I64([BIG]))])
        if op in ("CumSum",):
            return g.node("CumSum", [x, g.const(I64(0))])
        return g.node(op, [x])  # unknown operator: tried as a unary node; an invalid graph is skipped

    for op in through:
        for nm, (tp, lo, hi) in narrow.items():
            for start, limit in ((0, 4), (hi - 3, hi + 1), (lo, lo + 4)):
                def build(op=op, nm=nm, start=start, limit=limit):
                    g = GB()
                    n = g.inp("n", TP.INT64, ())
                    x = g.node("Range", [g.const(I64(start)), g.const(I64(limit)), g.const(I64(1))])
                    x = wrap_op(g, op, x, limit - start)
                    g.out(g.node("Add", [g.node("Cast", [g.node("Cast", [x], to=narrow[nm][0])], to=TP.INT64), n]))
                    return g.build()

                yield f"range_cast/through_{op}/{nm}/s{start}_l{limit}", build


FAMILIES = {
    "captured": gen_captured,
    "range_cast": gen_range_cast,
    "dag": gen_dag,
    "t_chain_t": gen_t_chain_t,
    "r_chain_r": gen_r_chain_r,
    "cast_pair": gen_cast_pair,
    "t_reduce_t": gen_t_reduce_t,
    "add_forest": gen_add_forest,
    "misc": gen_misc,
}


def enumerate_family(fam, tier):
    return list(FAMILIES[fam](tier))
