"""Interpreter for (un-patched) ClosedJaxpr over symbolic tensors: the reference semantics.

Per-primitive semantics are written from the JAX / XLA documentation.  A primitive
registered only by jax2onnx (a converter-only primitive leaking from a jit cache) is
refused: the oracle must be pure JAX.
"""
from __future__ import annotations

import math

import numpy as np
import z3

from . import sym as S
from .sym import T, NotEncodable, DomainError
from .onnx_sem import sort_pairs, einsum_T, MAX_ELEMS

PRIMS = {}


def prim(*names):
    def deco(fn):
        for n in names:
            PRIMS[n] = fn
        return fn

    return deco


class JCtx:
    def __init__(self, unroll=8):
        self.domain = []  # z3 Bool assumptions (in-domain inputs)
        self.unwind = []
        self.unroll = unroll
        self.prims_seen = set()
        self.fresh = 0
        self.gather_in_bounds_domain = True
        self.index_domain = []
        self.oob_seen = False
        self.violated = False  # a concrete input left the JAX domain (self-validation vectors)

    def assume(self, cond):
        """domain predicate: symbolic -> assumption; concrete False -> out-of-domain input"""
        if S.is_sym(cond):
            self.domain.append(cond)
        elif not cond:
            self.violated = True

    def assume_index(self, cond):
        """index-in-bounds predicate (kept separately: phase B of the pipeline drops these to look
        for SILENT differences where JAX clamps/fills and the model does something else)"""
        if S.is_sym(cond):
            self.index_domain.append(cond)
        elif not cond:
            self.violated = True
            self.oob_seen = True

    def fresh_val(self, tag, kind):
        self.fresh += 1
        n = f"__j_{tag}_{self.fresh}"
        return {"f": z3.Real, "i": z3.Int, "b": z3.Bool}[kind](n)


def _chk(t: T):
    if t.size > MAX_ELEMS:
        raise NotEncodable(f"tensor with {t.size} elements")
    return t


def _odt(eqn, i=0):
    return np.dtype(eqn.outvars[i].aval.dtype)


def _unary_f(fn):
    def impl(ctx, eqn, ins):
        x = ins[0]
        if x.kind != "f":
            raise NotEncodable(f"{eqn.primitive.name} on non-float")
        return [S.map1(fn, x)]

    return impl


for _n, _f in {
    "exp": S.f_exp,
    "log": S.f_log,
    "sqrt": S.f_sqrt,
    "rsqrt": S.f_rsqrt,
    "tanh": S.f_tanh,
    "logistic": S.f_logistic,
    "sin": lambda a: S.f_un("sin", a),
    "cos": lambda a: S.f_un("cos", a),
    "tan": S.f_tan,
    "asin": lambda a: S.f_un("asin", a),
    "acos": lambda a: S.f_un("acos", a),
    "atan": lambda a: S.f_un("atan", a),
    "sinh": S.f_sinh,
    "cosh": S.f_cosh,
    "asinh": lambda a: S.f_un("asinh", a),
    "acosh": lambda a: S.f_un("acosh", a),
    "atanh": lambda a: S.f_un("atanh", a),
    "erf": lambda a: S.f_un("erf", a),
    "erfc": S.f_erfc,
    "expm1": S.f_expm1,
    "log1p": S.f_log1p,
    "exp2": S.f_exp2,
    "floor": S.f_floor,
    "ceil": S.f_ceil,
    "cbrt": lambda a: S.f_un("cbrt", a),
    "lgamma": lambda a: S.f_un("lgamma", a),
    "digamma": lambda a: S.f_un("digamma", a),
    "erf_inv": lambda a: S.f_un("erf_inv", a),
}.items():
    PRIMS[_n] = _unary_f(_f)


@prim("cbrt")
def _cbrt(ctx, eqn, ins):
    # definitional normal form: sign(x) * |x| ** (1/3), the exponent rounded to the operand dtype
    x = ins[0]
    e = float(np.asarray(1.0 / 3.0, dtype=x.dtype if x.dtype.kind == "f" else np.float32))
    return [S.map1(lambda a: S.f_mul(S.f_sign(a), S.f_pow(S.f_abs(a), e)), x)]


@prim("round")
def _round(ctx, eqn, ins):
    m = eqn.params.get("rounding_method")
    mv = int(getattr(m, "value", m))
    # RoundingMethod.AWAY_FROM_ZERO = 0, TO_NEAREST_EVEN = 1
    fn = S.f_round_away if mv == 0 else S.f_round_even
    return [S.map1(fn, ins[0])]


@prim("is_finite")
def _is_finite(ctx, eqn, ins):
    def f(a):
        if S.is_sym(a):
            return True
        a = float(a)
        return not (math.isinf(a) or math.isnan(a))

    return [S.map1(f, ins[0], np.bool_)]


@prim("neg")
def _neg(ctx, eqn, ins):
    return [S.neg(ins[0])]


@prim("abs")
def _abs(ctx, eqn, ins):
    x = ins[0]
    if x.kind == "f":
        return [S.map1(S.f_abs, x)]
    return [S.map1(lambda a: S.i_abs(a, x.dtype), x)]


@prim("sign")
def _sign(ctx, eqn, ins):
    x = ins[0]
    if x.kind == "f":
        return [S.map1(S.f_sign, x)]
    return [S.map1(lambda a: S.i_sign(a, x.dtype), x)]


@prim("square")
def _square(ctx, eqn, ins):
    return [S.mul(ins[0], ins[0])]


@prim("integer_pow")
def _ipow(ctx, eqn, ins):
    y = int(eqn.params["y"])
    x = ins[0]
    if x.kind == "f":
        if y < 0:
            for a in x.a.flat:
                ctx.assume(S.c_ne(a, 0.0, "f"))
        return [S.map1(lambda a: S.f_ipow(a, y), x)]
    return [S.map1(lambda a: S.i_pow(a, y, x.dtype), x)]


@prim("add", "add_any")
def _add(ctx, eqn, ins):
    return [S.add(ins[0], ins[1])]


@prim("sub")
def _sub(ctx, eqn, ins):
    return [S.sub(ins[0], ins[1])]


@prim("mul")
def _mul(ctx, eqn, ins):
    return [S.mul(ins[0], ins[1])]


@prim("div")
def _div(ctx, eqn, ins):
    x, y = ins
    if x.kind == "f":
        return [S.map2(S.f_div, x, y, x.dtype)]

    lo = S.int_range(x.dtype)[0]

    def d(a, b):
        ctx.assume(S.c_ne(b, 0, "i"))
        if lo < 0:  # INT_MIN / -1 overflows: undefined in ONNX (and traps in ONNX Runtime)
            ctx.assume(S.b_not(S.b_and(S.c_eq(a, lo, "i"), S.c_eq(b, -1, "i"))))
        if not S.is_sym(b) and int(b) == 0:
            return 0
        return S.i_div_trunc(a, b, x.dtype)

    return [S.map2(d, x, y, x.dtype)]


@prim("rem")
def _rem(ctx, eqn, ins):
    x, y = ins
    if x.kind == "f":
        return [S.map2(S.f_fmod, x, y, x.dtype)]

    lo = S.int_range(x.dtype)[0]

    def d(a, b):
        ctx.assume(S.c_ne(b, 0, "i"))
        if lo < 0:
            ctx.assume(S.b_not(S.b_and(S.c_eq(a, lo, "i"), S.c_eq(b, -1, "i"))))
        if not S.is_sym(b) and int(b) == 0:
            return 0
        return S.i_rem_trunc(a, b, x.dtype)

    return [S.map2(d, x, y, x.dtype)]


@prim("max")
def _max(ctx, eqn, ins):
    return [S.maximum(ins[0], ins[1])]


@prim("min")
def _min(ctx, eqn, ins):
    return [S.minimum(ins[0], ins[1])]


@prim("pow")
def _pow(ctx, eqn, ins):
    x, y = ins
    if x.kind != "f":
        raise NotEncodable("pow on ints")
    if y.kind == "f":
        return [S.map2(S.f_pow, x, y, x.dtype)]
    if y.is_concrete():
        return [S.map2(lambda a, b: S.f_ipow(a, int(b)), x, y, x.dtype)]
    return [S.map2(lambda a, b: S.f_pow(a, z3.ToReal(b) if S.is_sym(b) else float(b)), x, y, x.dtype)]


@prim("atan2")
def _atan2(ctx, eqn, ins):
    return [S.map2(S.f_atan2, ins[0], ins[1], ins[0].dtype)]


@prim("nextafter")
def _nextafter(ctx, eqn, ins):
    raise NotEncodable("nextafter (bit-level float op)")


for _n, _c in {"eq": "eq", "ne": "ne", "lt": "lt", "le": "le", "gt": "gt", "ge": "ge"}.items():
    PRIMS[_n] = (lambda c: (lambda ctx, eqn, ins: [S.compare(c, ins[0], ins[1])]))(_c)


# total-order comparisons (sort comparators): equal to lt / le on the non-NaN values of the domain
PRIMS["lt_to"] = PRIMS["lt"]
PRIMS["le_to"] = PRIMS["le"]


@prim("and")
def _and(ctx, eqn, ins):
    if ins[0].kind == "i":
        return [S.map2(lambda a, b: S.i_bit("and", a, b, ins[0].dtype), ins[0], ins[1], ins[0].dtype)]
    if ins[0].kind != "b":
        raise NotEncodable("bitwise and on floats")
    return [S.map2(S.b_and, ins[0], ins[1], np.bool_)]


@prim("or")
def _or(ctx, eqn, ins):
    if ins[0].kind == "i":
        return [S.map2(lambda a, b: S.i_bit("or", a, b, ins[0].dtype), ins[0], ins[1], ins[0].dtype)]
    if ins[0].kind != "b":
        raise NotEncodable("bitwise or on floats")
    return [S.map2(S.b_or, ins[0], ins[1], np.bool_)]


@prim("xor")
def _xor(ctx, eqn, ins):
    if ins[0].kind == "i":
        return [S.map2(lambda a, b: S.i_bit("xor", a, b, ins[0].dtype), ins[0], ins[1], ins[0].dtype)]
    if ins[0].kind != "b":
        raise NotEncodable("bitwise xor on floats")
    return [S.map2(S.b_xor, ins[0], ins[1], np.bool_)]


@prim("not")
def _not(ctx, eqn, ins):
    if ins[0].kind == "i":
        return [S.map1(lambda a: S.i_not(a, ins[0].dtype), ins[0])]
    if ins[0].kind != "b":
        raise NotEncodable("bitwise not on floats")
    return [S.map1(S.b_not, ins[0])]


def _jax_shift(kind):
    def f(ctx, eqn, ins):
        x, n = ins
        if x.kind != "i":
            raise NotEncodable("shift on non-integers")
        bits = np.dtype(x.dtype).itemsize * 8

        def g(a, k):
            # XLA: a shift by >= width (or negative) yields 0 (arithmetic: the sign fill); keep it in-domain only
            if not S.is_sym(k):
                if int(k) < 0 or int(k) >= bits:
                    raise DomainError("shift amount outside [0, bits)")
            else:
                ctx.assume(S.b_and(S.c_ge(k, 0, "i"), S.c_lt(k, bits, "i")))
            return S.i_shift(kind, a, k, x.dtype)

        return [S.map2(g, x, n, x.dtype)]

    return f


PRIMS["shift_left"] = _jax_shift("left")
PRIMS["shift_right_logical"] = _jax_shift("right_logical")
PRIMS["shift_right_arithmetic"] = _jax_shift("right_arithmetic")


@prim("select_n")
def _select_n(ctx, eqn, ins):
    which, cases = ins[0], ins[1:]
    k = cases[0].kind
    if which.kind == "b":
        if len(cases) != 2:
            raise DomainError("bool selector with != 2 cases")
        return [S.where(which, cases[1], cases[0])]
    n = len(cases)
    for w in which.a.flat:
        ctx.assume(S.b_and(S.c_ge(w, 0, "i"), S.c_lt(w, n, "i")))
    r = cases[-1]
    for i in range(n - 2, -1, -1):
        sel = S.map1(lambda w, i=i: S.c_eq(w, i, "i"), which, np.bool_)
        r = S.where(sel, cases[i], r)
    return [r]


@prim("clamp")
def _clamp(ctx, eqn, ins):
    lo, x, hi = ins
    return [S.minimum(S.maximum(x, T(x.dtype, lo.a)), T(x.dtype, hi.a))]


@prim("convert_element_type")
def _convert(ctx, eqn, ins):
    return [S.cast(ins[0], np.dtype(eqn.params["new_dtype"]), ctx.domain)]


@prim("copy", "copy_p", "stop_gradient", "optimization_barrier", "device_put", "reduce_precision_noop", "pvary")
def _copy(ctx, eqn, ins):
    return list(ins)


@prim("real", "imag", "conj", "complex")
def _complex(ctx, eqn, ins):
    raise NotEncodable("complex numbers")


# --------------------------------------------------------------------------- structural

@prim("broadcast_in_dim")
def _bid(ctx, eqn, ins):
    x = ins[0]
    shape = tuple(int(d) for d in eqn.params["shape"])
    bd = tuple(eqn.params["broadcast_dimensions"])
    shp = [1] * len(shape)
    for i, d in enumerate(bd):
        shp[d] = x.shape[i]
    return [_chk(T(x.dtype, np.broadcast_to(x.a.reshape(shp), shape).copy()))]


@prim("reshape")
def _reshape(ctx, eqn, ins):
    x = ins[0]
    a = x.a
    if eqn.params.get("dimensions") is not None:
        # lax.reshape(operand, new_sizes, dimensions) == reshape(transpose(operand, dimensions), new_sizes)
        a = np.transpose(a, tuple(int(d) for d in eqn.params["dimensions"]))
    return [T(x.dtype, a.reshape(tuple(int(d) for d in eqn.params["new_sizes"])))]


@prim("transpose")
def _transpose(ctx, eqn, ins):
    return [T(ins[0].dtype, np.transpose(ins[0].a, tuple(eqn.params["permutation"])))]


@prim("squeeze")
def _squeeze(ctx, eqn, ins):
    x = ins[0]
    dims = tuple(d % x.ndim for d in eqn.params["dimensions"])
    return [T(x.dtype, np.squeeze(x.a, axis=dims) if dims else x.a)]


@prim("expand_dims")
def _expand_dims(ctx, eqn, ins):
    x = ins[0]
    a = x.a
    for d in sorted(eqn.params["dimensions"]):
        a = np.expand_dims(a, d)
    return [T(x.dtype, a)]


@prim("concatenate")
def _concat(ctx, eqn, ins):
    return [_chk(T(ins[0].dtype, np.concatenate([t.a for t in ins], axis=int(eqn.params["dimension"]))))]


@prim("slice")
def _slice(ctx, eqn, ins):
    x = ins[0]
    st = eqn.params["start_indices"]
    li = eqn.params["limit_indices"]
    sr = eqn.params.get("strides") or (1,) * x.ndim
    return [T(x.dtype, x.a[tuple(slice(int(s), int(l), int(r)) for s, l, r in zip(st, li, sr))])]


@prim("rev")
def _rev(ctx, eqn, ins):
    x = ins[0]
    return [T(x.dtype, np.flip(x.a, axis=tuple(eqn.params["dimensions"])))]


@prim("iota")
def _iota(ctx, eqn, ins):
    shape = tuple(int(d) for d in eqn.params["shape"])
    dim = int(eqn.params["dimension"])
    dt = np.dtype(eqn.params["dtype"])
    idx = np.arange(shape[dim])
    shp = [1] * len(shape)
    shp[dim] = shape[dim]
    arr = np.broadcast_to(idx.reshape(shp), shape)
    return [_chk(S.from_numpy(arr.astype(dt if dt.kind in "iuf" else np.float64), dt))]


@prim("pad")
def _pad(ctx, eqn, ins):
    x, pv = ins
    cfg = eqn.params["padding_config"]
    v = pv.a.reshape(-1)[0]
    a = x.a
    # interior padding first
    for d, (lo, hi, interior) in enumerate(cfg):
        if interior:
            n = a.shape[d]
            if n > 0:
                newn = n + (n - 1) * interior
                shp = list(a.shape)
                shp[d] = newn
                b = np.empty(shp, dtype=object)
                b.fill(v)
                sl = [slice(None)] * a.ndim
                sl[d] = slice(0, newn, interior + 1)
                b[tuple(sl)] = a
                a = b
    for d, (lo, hi, interior) in enumerate(cfg):
        lo, hi = int(lo), int(hi)
        sl = [slice(None)] * a.ndim
        sl[d] = slice(-lo if lo < 0 else 0, a.shape[d] + hi if hi < 0 else a.shape[d])
        a = a[tuple(sl)]
        plo, phi = max(lo, 0), max(hi, 0)
        if plo or phi:
            shp = list(a.shape)
            shp[d] += plo + phi
            b = np.empty(shp, dtype=object)
            b.fill(v)
            sl = [slice(None)] * a.ndim
            sl[d] = slice(plo, plo + a.shape[d])
            b[tuple(sl)] = a
            a = b
    return [_chk(T(x.dtype, a))]


@prim("tile")
def _tile(ctx, eqn, ins):
    return [_chk(T(ins[0].dtype, np.tile(ins[0].a, tuple(eqn.params["reps"]))))]


@prim("split")
def _split(ctx, eqn, ins):
    x = ins[0]
    sizes = [int(s) for s in eqn.params["sizes"]]
    axis = int(eqn.params["axis"])
    outs, pos = [], 0
    for s in sizes:
        sl = [slice(None)] * x.ndim
        sl[axis] = slice(pos, pos + s)
        outs.append(T(x.dtype, x.a[tuple(sl)]))
        pos += s
    return outs


@prim("stack")
def _stack(ctx, eqn, ins):
    return [T(ins[0].dtype, np.stack([t.a for t in ins], axis=int(eqn.params.get("axis", 0))))]


@prim("unstack")
def _unstack(ctx, eqn, ins):
    x = ins[0]
    axis = int(eqn.params.get("axis", 0))
    return [T(x.dtype, np.take(x.a, i, axis=axis)) for i in range(x.shape[axis])]


# --------------------------------------------------------------------------- reductions

def _addf(dt):
    return (lambda a, b: S.i_add(a, b, dt)) if S.kind_of(dt) == "i" else S.f_add


def _mulf(dt):
    return (lambda a, b: S.i_mul(a, b, dt)) if S.kind_of(dt) == "i" else S.f_mul


def _maxf(k):
    return {"i": S.i_max, "f": S.f_max, "b": S.b_or}[k]


def _minf(k):
    return {"i": S.i_min, "f": S.f_min, "b": S.b_and}[k]


def _min_ident(dt):
    k = S.kind_of(dt)
    if k == "f":
        return float("-inf")
    if k == "b":
        return False
    return S.int_range(dt)[0]


def _max_ident(dt):
    k = S.kind_of(dt)
    if k == "f":
        return float("inf")
    if k == "b":
        return True
    return S.int_range(dt)[1]


@prim("reduce")
def _reduce_generic(ctx, eqn, ins):
    """lax.reduce with an arbitrary computation and init values: a left fold of the computation over
    the reduced positions, starting from the init value (so a non-identity init is part of the result)"""
    n = len(ins) // 2
    ops, inits = ins[:n], ins[n:]
    dims = tuple(int(d) for d in eqn.params["dimensions"])
    jx = eqn.params["jaxpr"]
    consts = list(eqn.params.get("consts") or ())
    if consts:
        raise NotEncodable("reduce computation with constants")
    shp = ops[0].shape
    keep = [i for i in range(len(shp)) if i not in dims]
    out_shape = tuple(shp[i] for i in keep)
    red_shape = tuple(shp[i] for i in dims)
    if int(np.prod(shp)) > 4096:
        raise NotEncodable("reduce too large")
    outs = [np.empty(out_shape, dtype=object) for _ in range(n)]
    for oi in np.ndindex(*out_shape) if out_shape else [()]:
        acc = [T(t.dtype, np.asarray(t.a.reshape(-1)[0], dtype=object).reshape(())) for t in inits]
        for ri in np.ndindex(*red_shape) if red_shape else [()]:
            idx = [0] * len(shp)
            for k, i in enumerate(keep):
                idx[i] = oi[k]
            for k, i in enumerate(dims):
                idx[i] = ri[k]
            elems = [T(o.dtype, np.asarray(o.a[tuple(idx)], dtype=object).reshape(())) for o in ops]
            acc = eval_jaxpr(ctx, jx, [], acc + elems)
        for k in range(n):
            outs[k][oi] = acc[k].a.reshape(-1)[0]
    return [T(ops[k].dtype, outs[k]) for k in range(n)]


@prim("reduce_sum")
def _rsum(ctx, eqn, ins):
    x = ins[0]
    return [S.reduce_axes(_addf(x.dtype), x, eqn.params["axes"], False, S.zero_of(x.dtype))]


@prim("reduce_prod")
def _rprod(ctx, eqn, ins):
    x = ins[0]
    return [S.reduce_axes(_mulf(x.dtype), x, eqn.params["axes"], False, S.one_of(x.dtype))]


@prim("reduce_max")
def _rmax(ctx, eqn, ins):
    x = ins[0]
    axes = eqn.params["axes"]
    empty = any(x.shape[a] == 0 for a in axes)
    return [S.reduce_axes(_maxf(x.kind), x, axes, False, _min_ident(x.dtype) if empty else None)]


@prim("reduce_min")
def _rmin(ctx, eqn, ins):
    x = ins[0]
    axes = eqn.params["axes"]
    empty = any(x.shape[a] == 0 for a in axes)
    return [S.reduce_axes(_minf(x.kind), x, axes, False, _max_ident(x.dtype) if empty else None)]


@prim("reduce_and")
def _rand(ctx, eqn, ins):
    return [S.reduce_axes(S.b_and, ins[0], eqn.params["axes"], False, True)]


@prim("reduce_or")
def _ror(ctx, eqn, ins):
    return [S.reduce_axes(S.b_or, ins[0], eqn.params["axes"], False, False)]


@prim("reduce_xor")
def _rxor(ctx, eqn, ins):
    if ins[0].kind != "b":
        raise NotEncodable("reduce_xor on ints")
    return [S.reduce_axes(S.b_xor, ins[0], eqn.params["axes"], False, False)]


def _argred(eqn, ins, is_max):
    x = ins[0]
    (axis,) = eqn.params["axes"]
    dt = np.dtype(eqn.params["index_dtype"])
    k = x.kind
    xm = np.moveaxis(x.a, axis, -1)
    out = np.empty(xm.shape[:-1], dtype=object)
    n = xm.shape[-1]
    better = S.c_gt if is_max else S.c_lt
    for ii in np.ndindex(*out.shape) if out.shape else [()]:
        row = xm[ii]
        bi, bv = 0, row[0]
        for j in range(1, n):
            c = better(row[j], bv, k)
            bi = S.ite(c, j, bi, "i")
            bv = S.ite(c, row[j], bv, k)
        out[ii] = bi
    return [T(dt, out)]


@prim("argmax")
def _argmax(ctx, eqn, ins):
    return _argred(eqn, ins, True)


@prim("argmin")
def _argmin(ctx, eqn, ins):
    return _argred(eqn, ins, False)


def _cum(eqn, ins, comb):
    x = ins[0]
    axis = int(eqn.params["axis"])
    rev = bool(eqn.params.get("reverse", False))
    xm = np.moveaxis(x.a, axis, -1)
    out = np.empty(xm.shape, dtype=object)
    n = xm.shape[-1]
    for ii in np.ndindex(*xm.shape[:-1]) if xm.shape[:-1] else [()]:
        row = list(xm[ii])
        if rev:
            row = row[::-1]
        res, acc = [], None
        for j in range(n):
            acc = row[j] if acc is None else comb(acc, row[j])
            res.append(acc)
        if rev:
            res = res[::-1]
        for j in range(n):
            out[ii + (j,)] = res[j]
    return [T(x.dtype, np.moveaxis(out, -1, axis))]


@prim("cumsum")
def _cumsum(ctx, eqn, ins):
    # start from the additive identity so that terms coincide with ONNX CumSum's fold
    x = ins[0]
    add = _addf(x.dtype)
    z = S.zero_of(x.dtype)
    return _cum(eqn, [S.map1(lambda a: add(z, a), x)], add)


@prim("cumprod")
def _cumprod(ctx, eqn, ins):
    return _cum(eqn, ins, _mulf(ins[0].dtype))


@prim("cummax")
def _cummax(ctx, eqn, ins):
    return _cum(eqn, ins, _maxf(ins[0].kind))


@prim("cummin")
def _cummin(ctx, eqn, ins):
    return _cum(eqn, ins, _minf(ins[0].kind))


@prim("dot_general")
def _dot_general(ctx, eqn, ins):
    x, y = ins
    (cx, cy), (bx, by) = eqn.params["dimension_numbers"]
    odt = _odt(eqn)
    letters = "abcdefghijklmnopqrstuvwxyz"
    it = iter(letters)
    lx = [None] * x.ndim
    ly = [None] * y.ndim
    for i, j in zip(bx, by):
        c = next(it)
        lx[i] = c
        ly[j] = c
    for i, j in zip(cx, cy):
        c = next(it)
        lx[i] = c
        ly[j] = c
    for i in range(x.ndim):
        if lx[i] is None:
            lx[i] = next(it)
    for j in range(y.ndim):
        if ly[j] is None:
            ly[j] = next(it)
    out = [lx[i] for i in bx]
    out += [lx[i] for i in range(x.ndim) if i not in bx and i not in cx]
    out += [ly[j] for j in range(y.ndim) if j not in by and j not in cy]
    eq = f"{''.join(lx)},{''.join(ly)}->{''.join(out)}"
    xs = x if x.dtype == odt else S.cast(x, odt, ctx.domain)
    ys = y if y.dtype == odt else S.cast(y, odt, ctx.domain)
    return [_chk(einsum_T(eq, [xs, ys], odt))]


@prim("sort")
def _sort(ctx, eqn, ins):
    dim = int(eqn.params["dimension"])
    nk = int(eqn.params.get("num_keys", 1))
    if nk != 1:
        raise NotEncodable("sort with num_keys != 1")
    keys = ins[0]
    n = keys.shape[dim]
    if n > 6:
        raise NotEncodable("sort over more than 6 elements")
    km = np.moveaxis(keys.a, dim, -1)
    oms = [np.moveaxis(t.a, dim, -1) for t in ins]
    outs = [np.empty(km.shape, dtype=object) for _ in ins]
    for ii in np.ndindex(*km.shape[:-1]) if km.shape[:-1] else [()]:
        vals = [km[ii + (j,)] for j in range(n)]
        v, ix = sort_pairs(vals, list(range(n)), keys.kind)
        for oi, (t, om) in enumerate(zip(ins, oms)):
            for j in range(n):
                if oi == 0:
                    outs[0][ii + (j,)] = v[j]
                else:
                    cands = [om[ii + (q,)] for q in range(n)]
                    r = cands[-1]
                    for q in range(n - 2, -1, -1):
                        r = S.ite(S.c_eq(ix[j], q, "i"), cands[q], r, t.kind)
                    outs[oi][ii + (j,)] = r
    return [T(t.dtype, np.moveaxis(o, -1, dim)) for t, o in zip(ins, outs)]


@prim("top_k")
def _topk(ctx, eqn, ins):
    x = ins[0]
    k = int(eqn.params["k"])
    n = x.shape[-1]
    if n > 6:
        raise NotEncodable("top_k over more than 6 elements")
    vals = np.empty(x.shape[:-1] + (k,), dtype=object)
    idxs = np.empty(x.shape[:-1] + (k,), dtype=object)
    for ii in np.ndindex(*x.shape[:-1]) if x.shape[:-1] else [()]:
        v, ix = sort_pairs([x.a[ii + (j,)] for j in range(n)], list(range(n)), x.kind, descending=True)
        for j in range(k):
            vals[ii + (j,)] = v[j]
            idxs[ii + (j,)] = ix[j]
    return [T(x.dtype, vals), T(_odt(eqn, 1), idxs)]


# --------------------------------------------------------------------------- indexing

def _clamp_start(ctx, s, lo, hi):
    """clamp possibly symbolic int s to [lo, hi] (concrete bounds)."""
    if not S.is_sym(s):
        return min(max(int(s), lo), hi)
    return z3.If(s < lo, lo, z3.If(s > hi, hi, s))


def _pick(arr, pos, kind):
    """arr: object ndarray; pos: list per dim of concrete int or (sym, lo, hi) meaning a symbolic
    position known (by clamping) to lie in [lo, hi]. Returns the selected element."""
    if not isinstance(arr, np.ndarray):
        return arr
    if arr.ndim == 0:
        return arr[()]
    p = pos[0]
    if not isinstance(p, tuple):
        return _pick(arr[p], pos[1:], kind)
    sym, lo, hi = p
    r = _pick(arr[hi], pos[1:], kind)
    for j in range(hi - 1, lo - 1, -1):
        r = S.ite(sym == j, _pick(arr[j], pos[1:], kind), r, kind)
    return r


def _sym_add(s, off):
    if S.is_sym(s):
        return s + off if off else s
    return int(s) + off


@prim("dynamic_slice")
def _dynamic_slice(ctx, eqn, ins):
    x = ins[0]
    starts = [t.a.reshape(-1)[0] for t in ins[1:]]
    sizes = [int(s) for s in eqn.params["slice_sizes"]]
    for d, s in enumerate(starts):
        ctx.assume_index(S.b_and(S.c_ge(s, 0, "i"), S.c_le(s, x.shape[d] - sizes[d], "i")))
    cl = [_clamp_start(ctx, s, 0, x.shape[d] - sizes[d]) for d, s in enumerate(starts)]
    out = np.empty(tuple(sizes), dtype=object)
    for ii in np.ndindex(*sizes):
        pos = []
        for d in range(x.ndim):
            if S.is_sym(cl[d]):
                pos.append((cl[d] + ii[d] if ii[d] else cl[d], ii[d], x.shape[d] - sizes[d] + ii[d]))
            else:
                pos.append(cl[d] + ii[d])
        out[ii] = _pick(x.a, pos, x.kind)
    return [_chk(T(x.dtype, out))]


@prim("dynamic_update_slice")
def _dus(ctx, eqn, ins):
    x, upd = ins[0], ins[1]
    starts = [t.a.reshape(-1)[0] for t in ins[2:]]
    for d, s in enumerate(starts):
        ctx.assume_index(S.b_and(S.c_ge(s, 0, "i"), S.c_le(s, x.shape[d] - upd.shape[d], "i")))
    cl = [_clamp_start(ctx, s, 0, x.shape[d] - upd.shape[d]) for d, s in enumerate(starts)]
    if all(not S.is_sym(c) for c in cl):
        out = x.a.copy()
        out[tuple(slice(c, c + upd.shape[d]) for d, c in enumerate(cl))] = upd.a
        return [T(x.dtype, out)]
    out = np.empty(x.shape, dtype=object)
    k = x.kind
    for ii in np.ndindex(*x.shape):
        # element ii is overwritten iff for all d: cl[d] <= ii[d] < cl[d]+upd.shape[d]
        r = x.a[ii]
        # choose update element: offset = ii - cl
        conds = []
        pos = []
        for d in range(x.ndim):
            c = cl[d]
            if S.is_sym(c):
                conds.append(z3.And(c <= ii[d], ii[d] < c + upd.shape[d]))
                off = ii[d] - c
                pos.append((off, 0, upd.shape[d] - 1))
            else:
                if not (c <= ii[d] < c + upd.shape[d]):
                    conds = None
                    break
                pos.append(ii[d] - c)
        if conds is None:
            out[ii] = r
            continue
        u = _pick(upd.a, pos, k)
        cond = True
        for c in conds:
            cond = S.b_and(cond, c)
        out[ii] = S.ite(cond, u, r, k)
    return [T(x.dtype, out)]


def _mode_name(m):
    return str(getattr(m, "name", m)).upper()


def _fill_for(dtype, fill_value):
    if fill_value is not None:
        return fill_value
    k = S.kind_of(dtype)
    if k == "f":
        return float("nan")
    if k == "b":
        return True
    lo, hi = S.int_range(dtype)
    return lo if lo < 0 else hi


@prim("gather")
def _gather(ctx, eqn, ins):
    x, idx = ins
    dn = eqn.params["dimension_numbers"]
    slice_sizes = [int(s) for s in eqn.params["slice_sizes"]]
    mode = _mode_name(eqn.params["mode"])
    fill_value = eqn.params.get("fill_value")
    offset_dims = tuple(dn.offset_dims)
    collapsed = tuple(dn.collapsed_slice_dims)
    sim = tuple(dn.start_index_map)
    obd = tuple(getattr(dn, "operand_batching_dims", ()))
    sbd = tuple(getattr(dn, "start_indices_batching_dims", ()))
    out_shape = tuple(int(d) for d in eqn.outvars[0].aval.shape)
    batch_shape = idx.shape[:-1]
    out_rank = len(out_shape)
    batch_pos = [d for d in range(out_rank) if d not in offset_dims]
    window_operand_dims = [d for d in range(x.ndim) if d not in collapsed and d not in obd]
    out = np.empty(out_shape, dtype=object)
    k = x.kind
    fill = _fill_for(x.dtype, fill_value)
    for oi in np.ndindex(*out_shape) if out_shape else [()]:
        bidx = tuple(oi[p] for p in batch_pos)
        off = {wd: oi[od] for wd, od in zip(window_operand_dims, offset_dims)}
        start = [0] * x.ndim
        for kk, d in enumerate(sim):
            start[d] = idx.a[bidx + (kk,)]
        for od, sd in zip(obd, sbd):
            start[od] = bidx[sd]
        inb = True
        pos = []
        for d in range(x.ndim):
            hi = x.shape[d] - slice_sizes[d]
            s = start[d]
            if d in sim:
                c = S.b_and(S.c_ge(s, 0, "i"), S.c_le(s, hi, "i"))
                if ctx.gather_in_bounds_domain:
                    ctx.assume_index(c)  # in-domain input: indices in bounds (JAX's clamp/fill not exercised)
                if mode == "FILL_OR_DROP":
                    inb = S.b_and(inb, c)
            cs = _clamp_start(ctx, s, 0, hi) if (d in sim) else s
            o = off.get(d, 0)
            if S.is_sym(cs):
                pos.append((cs + o if o else cs, o, hi + o))
            else:
                pos.append(int(cs) + o)
        v = _pick(x.a, pos, k)
        if mode == "FILL_OR_DROP":
            v = S.ite(inb, v, fill, k)
        out[oi] = v
    return [_chk(T(x.dtype, out))]


def _scatter_impl(ctx, eqn, ins, comb):
    x, idx, upd = ins
    dn = eqn.params["dimension_numbers"]
    mode = _mode_name(eqn.params["mode"])
    uwd = tuple(dn.update_window_dims)
    iwd = tuple(dn.inserted_window_dims)
    sdod = tuple(dn.scatter_dims_to_operand_dims)
    obd = tuple(getattr(dn, "operand_batching_dims", ()))
    sbd = tuple(getattr(dn, "scatter_indices_batching_dims", ()))
    upd_rank = upd.ndim
    scatter_pos = [d for d in range(upd_rank) if d not in uwd]
    window_operand_dims = [d for d in range(x.ndim) if d not in iwd and d not in obd]
    # window bounds per operand dim
    wsize = [1] * x.ndim
    for wd, ud in zip(window_operand_dims, uwd):
        wsize[wd] = upd.shape[ud]
    k = x.kind
    out = x.a.copy()
    for ui in np.ndindex(*upd.shape) if upd.shape else [()]:
        sidx = tuple(ui[p] for p in scatter_pos)
        off = {wd: ui[ud] for wd, ud in zip(window_operand_dims, uwd)}
        start = [0] * x.ndim
        for kk, d in enumerate(sdod):
            start[d] = idx.a[sidx + (kk,)]
        for od, sd in zip(obd, sbd):
            start[od] = sidx[sd]
        valid = True
        tgt = []
        for d in range(x.ndim):
            s = start[d]
            hi = x.shape[d] - wsize[d]
            if d in sdod:
                if mode == "CLIP":
                    s = _clamp_start(ctx, s, 0, hi)
                elif mode == "FILL_OR_DROP":
                    c = S.b_and(S.c_ge(s, 0, "i"), S.c_le(s, hi, "i"))
                    if ctx.gather_in_bounds_domain:
                        ctx.assume_index(c)
                    valid = S.b_and(valid, c)
                else:  # PROMISE_IN_BOUNDS: in-bounds is a domain predicate
                    ctx.assume(S.b_and(S.c_ge(s, 0, "i"), S.c_le(s, hi, "i")))
            tgt.append(_sym_add(s, off.get(d, 0)))
        u = upd.a[ui]
        if all(not S.is_sym(t) for t in tgt):
            if any(not (0 <= t < x.shape[d]) for d, t in enumerate(tgt)):
                continue  # dropped
            tt = tuple(tgt)
            new = comb(out[tt], u)
            out[tt] = S.ite(valid, new, out[tt], k) if valid is not True else new
            continue
        for ei in np.ndindex(*x.shape):
            m = valid
            skip = False
            for d in range(x.ndim):
                if S.is_sym(tgt[d]):
                    m = S.b_and(m, tgt[d] == ei[d])
                elif tgt[d] != ei[d]:
                    skip = True
                    break
            if skip or m is False:
                continue
            out[ei] = S.ite(m, comb(out[ei], u), out[ei], k)
    return [T(x.dtype, out)]


@prim("scatter")
def _scatter(ctx, eqn, ins):
    return _scatter_impl(ctx, eqn, ins, lambda old, new: new)


@prim("scatter-add", "scatter_add")
def _scatter_add(ctx, eqn, ins):
    return _scatter_impl(ctx, eqn, ins, _addf(ins[0].dtype))


@prim("scatter-mul", "scatter_mul")
def _scatter_mul(ctx, eqn, ins):
    return _scatter_impl(ctx, eqn, ins, _mulf(ins[0].dtype))


@prim("scatter-min", "scatter_min")
def _scatter_min(ctx, eqn, ins):
    return _scatter_impl(ctx, eqn, ins, _minf(ins[0].kind))


@prim("scatter-max", "scatter_max")
def _scatter_max(ctx, eqn, ins):
    return _scatter_impl(ctx, eqn, ins, _maxf(ins[0].kind))


# --------------------------------------------------------------------------- windows / conv

def _reduce_window(ctx, eqn, ins, comb, ident_of):
    x = ins[0]
    wd = [int(d) for d in eqn.params["window_dimensions"]]
    ws = [int(d) for d in eqn.params["window_strides"]]
    pad = [(int(a), int(b)) for a, b in eqn.params["padding"]]
    bd = [int(d) for d in eqn.params.get("base_dilation") or [1] * x.ndim]
    wdil = [int(d) for d in eqn.params.get("window_dilation") or [1] * x.ndim]
    if any(b != 1 for b in bd):
        raise NotEncodable("reduce_window base dilation")
    out_shape = tuple(int(d) for d in eqn.outvars[0].aval.shape)
    out = np.empty(out_shape, dtype=object)
    ident = ident_of(x.dtype)
    for oi in np.ndindex(*out_shape):
        acc = ident
        for kk in np.ndindex(*wd):
            pos = [oi[d] * ws[d] - pad[d][0] + kk[d] * wdil[d] for d in range(x.ndim)]
            if all(0 <= pos[d] < x.shape[d] for d in range(x.ndim)):
                acc = comb(acc, x.a[tuple(pos)])
        out[oi] = acc
    return [_chk(T(x.dtype, out))]


@prim("reduce_window_sum")
def _rws(ctx, eqn, ins):
    return _reduce_window(ctx, eqn, ins, _addf(ins[0].dtype), S.zero_of)


@prim("reduce_window_max")
def _rwmax(ctx, eqn, ins):
    return _reduce_window(ctx, eqn, ins, _maxf(ins[0].kind), _min_ident)


@prim("reduce_window_min")
def _rwmin(ctx, eqn, ins):
    return _reduce_window(ctx, eqn, ins, _minf(ins[0].kind), _max_ident)


@prim("conv_general_dilated")
def _conv(ctx, eqn, ins):
    lhs, rhs = ins
    p = eqn.params
    dn = p["dimension_numbers"]
    strides = [int(s) for s in p["window_strides"]]
    padding = [(int(a), int(b)) for a, b in p["padding"]]
    lhs_dil = [int(d) for d in (p.get("lhs_dilation") or [1] * len(strides))]
    rhs_dil = [int(d) for d in (p.get("rhs_dilation") or [1] * len(strides))]
    fg = int(p.get("feature_group_count", 1))
    bg = int(p.get("batch_group_count", 1))
    if bg != 1 or any(d != 1 for d in lhs_dil):
        raise NotEncodable("conv batch groups / lhs dilation")
    lspec, rspec, ospec = dn.lhs_spec, dn.rhs_spec, dn.out_spec
    X = np.transpose(lhs.a, lspec)  # N C spatial...
    W = np.transpose(rhs.a, rspec)  # O I spatial...
    N, C = X.shape[:2]
    O, I = W.shape[:2]
    nsp = X.ndim - 2
    out_shape = tuple(int(d) for d in eqn.outvars[0].aval.shape)
    osp = [out_shape[ospec[2 + d]] for d in range(nsp)]
    og = O // fg
    work = N * O * int(np.prod(osp)) * I * int(np.prod(W.shape[2:]))
    if work > 300000:
        raise NotEncodable("conv too large")
    Y = np.empty((N, O) + tuple(osp), dtype=object)
    for ii in np.ndindex(*Y.shape):
        n, o, sp = ii[0], ii[1], ii[2:]
        g = o // og
        acc = 0.0
        for c in range(I):
            for kk in np.ndindex(*W.shape[2:]):
                pos = [sp[d] * strides[d] - padding[d][0] + kk[d] * rhs_dil[d] for d in range(nsp)]
                if all(0 <= pos[d] < X.shape[2 + d] for d in range(nsp)):
                    acc = S.f_add(acc, S.f_mul(X[(n, g * I + c) + tuple(pos)], W[(o, c) + kk]))
        Y[ii] = acc
    inv = np.argsort(ospec)
    return [_chk(T(_odt(eqn), np.transpose(Y, inv)))]


# --------------------------------------------------------------------------- calls & control flow

def _closed(j):
    """-> (jaxpr, consts)"""
    if hasattr(j, "jaxpr") and hasattr(j, "consts"):
        return j.jaxpr, list(j.consts)
    return j, []


@prim("jit", "pjit", "closed_call", "core_call", "remat", "checkpoint", "remat2", "custom_lin")
def _call(ctx, eqn, ins):
    j = eqn.params.get("jaxpr") or eqn.params.get("call_jaxpr")
    jaxpr, consts = _closed(j)
    return eval_jaxpr(ctx, jaxpr, consts, ins)


@prim("custom_jvp_call")
def _cjvp(ctx, eqn, ins):
    jaxpr, consts = _closed(eqn.params["call_jaxpr"])
    return eval_jaxpr(ctx, jaxpr, consts, ins)


@prim("custom_vjp_call", "custom_vjp_call_jaxpr")
def _cvjp(ctx, eqn, ins):
    j = eqn.params.get("call_jaxpr") or eqn.params.get("fun_jaxpr")
    jaxpr, consts = _closed(j)
    return eval_jaxpr(ctx, jaxpr, consts, ins)


def _guard(ctx, n_dom, cond):
    ctx.domain[n_dom:] = [z3.Implies(cond, d) for d in ctx.domain[n_dom:]]


@prim("cond")
def _cond(ctx, eqn, ins):
    branches = eqn.params["branches"]
    idx = ins[0].a.reshape(-1)[0]
    ops = ins[1:]
    n = len(branches)
    ik = ins[0].kind
    if not S.is_sym(idx):
        i = int(idx)
        i = min(max(i, 0), n - 1)
        jaxpr, consts = _closed(branches[i])
        return eval_jaxpr(ctx, jaxpr, consts, ops)
    # lax.switch clamps the index; lax.cond converts the predicate to int32 (0/1)
    outs_per = []
    conds = []
    for i, br in enumerate(branches):
        if ik == "b":
            c = idx if i == 1 else z3.Not(idx)
            if n != 2:
                raise NotEncodable("bool index with != 2 branches")
        else:
            if i == 0:
                c = idx <= 0
            elif i == n - 1:
                c = idx >= n - 1
            else:
                c = idx == i
        nd = len(ctx.domain)
        jaxpr, consts = _closed(br)
        outs_per.append(eval_jaxpr(ctx, jaxpr, consts, ops))
        _guard(ctx, nd, c)
        conds.append(c)
    res = []
    for oi in range(len(outs_per[0])):
        r = outs_per[-1][oi]
        for i in range(n - 2, -1, -1):
            a = outs_per[i][oi]
            c = conds[i]
            r = S.map2(lambda u, v, c=c, k=a.kind: S.ite(c, u, v, k), a, r, a.dtype)
        res.append(r)
    return res


@prim("while")
def _while(ctx, eqn, ins):
    p = eqn.params
    cn, bn = int(p["cond_nconsts"]), int(p["body_nconsts"])
    cj, cc = _closed(p["cond_jaxpr"])
    bj, bc = _closed(p["body_jaxpr"])
    cconsts, bconsts, carry = ins[:cn], ins[cn : cn + bn], list(ins[cn + bn :])
    alive = True
    it = 0
    while True:
        nd = len(ctx.domain)
        ct = eval_jaxpr(ctx, cj, cc, list(cconsts) + carry)[0]
        pred_vec = None
        if ct.ndim >= 1:
            # batched predicate (vmap of while_loop): the loop runs while ANY example is active and an
            # example whose predicate is false keeps its carried values (the predicate's shape is a
            # prefix of every carry's shape) - jax/_src/lax/control_flow/loops.py, _while_lowering
            pred_vec = ct
            c = False
            for e in ct.a.reshape(-1):
                c = S.b_or(c, e)
        else:
            c = ct.a.reshape(-1)[0]
        if alive is not True:
            _guard(ctx, nd, alive)
        cur = S.b_and(alive, c)
        if not S.is_sym(cur):
            if not cur:
                break
        if it >= ctx.unroll and S.is_sym(cur):
            ctx.unwind.append(z3.Not(cur))
            break
        if it >= max(ctx.unroll, 64):
            raise NotEncodable(f"while needs more than {max(ctx.unroll, 64)} iterations")
        nd = len(ctx.domain)
        new = eval_jaxpr(ctx, bj, bc, list(bconsts) + carry)
        if pred_vec is not None:
            masked = []
            for old_t, nw_t in zip(carry, new):
                if tuple(nw_t.shape[: pred_vec.ndim]) != tuple(pred_vec.shape):
                    raise NotEncodable("batched while: carry without the predicate's leading dims")
                pv = pred_vec.a.reshape(pred_vec.shape + (1,) * (nw_t.ndim - pred_vec.ndim))
                pb = np.broadcast_to(pv, nw_t.shape)
                out = np.empty(nw_t.shape, dtype=object)
                for idx in np.ndindex(*nw_t.shape) if nw_t.shape else [()]:
                    out[idx] = S.ite(pb[idx], nw_t.a[idx], old_t.a[idx], nw_t.kind)
                masked.append(T(nw_t.dtype, out))
            new = masked
        if S.is_sym(cur):
            _guard(ctx, nd, cur)
            carry = [
                S.map2(lambda o, nw, k=nw_t.kind: S.ite(cur, nw, o, k), old_t, nw_t, nw_t.dtype)
                for old_t, nw_t in zip(carry, new)
            ]
        else:
            carry = list(new)
        alive = cur
        it += 1
    return carry


def scan_counts(params, n_in):
    ft_in = params.get("ft_in")
    if ft_in is not None:
        groups = getattr(ft_in, "elts", ft_in)
        nc, ncar, nxs = (len(list(g)) for g in groups)
    else:
        nc = int(params.get("num_consts", 0))
        ncar = int(params.get("num_carry", 0))
        nxs = n_in - nc - ncar
    if nc + ncar + nxs != n_in:
        raise NotEncodable("scan arity decode")
    return nc, ncar, nxs


@prim("scan")
def _scan(ctx, eqn, ins):
    p = eqn.params
    nc, ncar, nxs = scan_counts(p, len(ins))
    jaxpr, jc = _closed(p["jaxpr"])
    length = int(p["length"])
    rev = bool(p["reverse"])
    consts, carry, xs = ins[:nc], list(ins[nc : nc + ncar]), ins[nc + ncar :]
    n_out = len(eqn.outvars)
    n_ys = n_out - ncar
    ys = [[None] * length for _ in range(n_ys)]
    if length > 64:
        raise NotEncodable("scan longer than 64")
    order = range(length - 1, -1, -1) if rev else range(length)
    for t in order:
        xt = [T(x.dtype, x.a[t]) for x in xs]
        outs = eval_jaxpr(ctx, jaxpr, jc, list(consts) + carry + xt)
        carry = list(outs[:ncar])
        for k in range(n_ys):
            ys[k][t] = outs[ncar + k]
    res = list(carry)
    for k in range(n_ys):
        av = eqn.outvars[ncar + k].aval
        if length:
            res.append(T(np.dtype(av.dtype), np.stack([y.a for y in ys[k]], axis=0)))
        else:
            res.append(T(np.dtype(av.dtype), np.empty(tuple(int(d) for d in av.shape), dtype=object)))
    return res


# --------------------------------------------------------------------------- driver

def _is_converter_only(name: str) -> bool:
    return "." in name or name.startswith(("nnx_", "eqx_", "linen_", "onnx_fn"))


def literal_T(val, aval) -> T:
    dt = np.dtype(aval.dtype)
    arr = np.asarray(val)
    if arr.size > MAX_ELEMS:
        raise NotEncodable(f"constant with {arr.size} elements")
    return S.from_numpy(arr.astype(dt) if arr.dtype != dt and dt.kind in "biuf" else arr, dt)


def eval_jaxpr(ctx: JCtx, jaxpr, consts, args):
    from jax.extend import core as jcore  # noqa

    env = {}

    def read(v):
        if hasattr(v, "val") and type(v).__name__ == "Literal":
            return literal_T(v.val, v.aval)
        return env[v]

    if len(jaxpr.constvars) != len(consts):
        raise NotEncodable("constvars/consts mismatch")
    for v, c in zip(jaxpr.constvars, consts):
        env[v] = c if isinstance(c, T) else literal_T(c, v.aval)
    if len(jaxpr.invars) != len(args):
        raise NotEncodable("invars/args mismatch")
    for v, a in zip(jaxpr.invars, args):
        env[v] = a
    for eqn in jaxpr.eqns:
        name = eqn.primitive.name
        ctx.prims_seen.add(name)
        impl = PRIMS.get(name)
        if impl is None:
            if _is_converter_only(name):
                raise NotEncodable(f"converter-only primitive in reference trace: {name}")
            raise NotEncodable(f"jax primitive {name}")
        ins = [read(v) for v in eqn.invars]
        try:
            outs = impl(ctx, eqn, ins)
        except (ValueError, IndexError, KeyError, TypeError, AttributeError) as e:
            raise NotEncodable(f"jax primitive {name}: {type(e).__name__}: {e}")
        if len(outs) != len(eqn.outvars):
            raise NotEncodable(f"{name}: output arity")
        for v, o in zip(eqn.outvars, outs):
            av = v.aval
            shp = tuple(int(d) for d in av.shape)
            if o.shape != shp:
                raise NotEncodable(f"{name}: my shape {o.shape} != aval {shp}")
            dt = np.dtype(av.dtype)
            if o.dtype != dt:
                if S.kind_of(o.dtype) != S.kind_of(dt):
                    raise NotEncodable(f"{name}: my dtype {o.dtype} != aval {dt}")
                o = T(dt, o.a)
            env[v] = o
    return [read(v) for v in jaxpr.outvars]
