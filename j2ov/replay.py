"""./run replay <path>: re-execute a recorded counterexample against the real code."""
import json
import sys

import numpy as np


def main(path):
    import logging

    logging.disable(logging.WARNING)
    d = json.load(open(path))
    job = d.get("job")
    w = d.get("witness") or {}
    if not job or "inputs" not in w:
        print(json.dumps(d, indent=1)[:4000])
        print("(no concrete program/inputs recorded; the payload above is the witness)")
        return 0
    from . import pipeline
    from .checks import c01

    prog = c01.get_program(job)
    shapes = [tuple(np.asarray(a).shape) for a in w["inputs"]]
    cj = pipeline.trace_reference(prog, shapes)
    model = pipeline.export(prog)
    dts = pipeline._dtypes_for(prog, prog.x64)
    arrays = [np.asarray(a).astype(dt) for a, dt in zip(w["inputs"], dts)]
    pnames = set(prog.input_params)
    pos_names = [g.name for g in pipeline.model_io(model, prog) if g.name not in pnames]
    differs, info = pipeline.replay_concrete(prog, cj, model, arrays, pos_names)
    print("program:", job)
    print("inputs :", w["inputs"])
    print("jax    :", info.get("jax"))
    print("ort    :", info.get("ort", info.get("ort_error")))
    print("REPRODUCED" if differs else "not reproduced", info.get("why", ""))
    return 1 if differs else 0


if __name__ == "__main__":
    sys.exit(main(sys.argv[1]))
