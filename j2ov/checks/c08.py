"""C08 - static type and shape annotations never contradict run time.

Shape mode: every declared element type and every declared integer dimension / symbol of every
value (graph inputs/outputs, intermediates, If/Loop bodies, function bodies via inlining) is compared
with the runtime shape computed by the shape-mode evaluator; for models with named dimensions z3
decides `declared == runtime` for ALL bindings.  Witness bindings are replayed in ONNX Runtime with
the annotated value exposed as an extra output.  E1: CrossHair on ir_postprocess shape loosening."""
from __future__ import annotations

import os
import sys
import time

import numpy as np

from .. import corpus, families, pipeline, runner, shapecheck
from . import common, c01

PROP = "C08"
JOB_TIMEOUT_S = {"quick": 120, "thorough": 600}


def list_jobs(tier):
    reg = corpus.registry_ids(include_f64=False)
    a1 = families.ids("A1", tier)
    ids = families.ids("A4", tier) + families.ids("A5", tier) + families.ids("A6", tier)[::3] + families.ids("A8", tier)[::4]
    ids += [i for i in a1 if any(k in i for k in ("/bc.", "/sc.", "/mix.", "/dot."))] + [i for i in a1 if not any(k in i for k in ("/bc.", "/sc.", "/mix.", "/dot."))][::4]
    ids += reg[::5] if tier == "quick" else reg
    return ids


def run_job(job, tier):
    try:
        p = c01.get_program(job)
    except corpus.OutOfBound as e:
        return {"job": job, "status": "out_of_bound"}
    r = shapecheck.analyze_shapes(p, timeout_ms=4000 if tier == "quick" else 30000, check_annotations=True)
    out = {"job": job, "status": r["status"], "reason": r.get("reason"), "stats": r.get("stats"), "symbols": r.get("symbols")}
    confirmed, unconfirmed = [], []
    for f in r.get("findings", []):
        if not f["kind"].startswith("annotation"):
            continue  # operator obligations / output shapes belong to C04 / C03
        ok, info = shapecheck.replay_finding(p, r["model"], f)
        (confirmed if ok else unconfirmed).append({"kind": f["kind"], "text": f["text"], "value": f.get("value"), "binding": f.get("binding"), "replay": {k: v for k, v in info.items() if k != "shapes"}})
    if confirmed:
        out["status"] = "violation"
        out["confirmed"] = confirmed
    elif r["status"] == "candidate":
        out["status"] = "proved" if not unconfirmed else "inconclusive"
        out["unconfirmed"] = unconfirmed[:5]
    return out


KERNEL = '''
from typing import Optional
import onnx_ir as ir
import jax2onnx.converter.ir_postprocess as M


def unknown_shape_like_weakens(d0: int, d1: int, k0: int, k1: int, rank_only: bool) -> bool:
    """
    pre: 0 <= d0 <= 5 and 0 <= d1 <= 5 and 0 <= k0 <= 2 and 0 <= k1 <= 2
    post: _
    """
    dims = []
    for d, k in ((d0, k0), (d1, k1)):
        dims.append(d if k == 0 else (ir.SymbolicDim("B") if k == 1 else ir.SymbolicDim(None)))
    val = ir.Value(name="v", type=ir.TensorType(ir.DataType.FLOAT), shape=ir.Shape(dims))
    out = M._unknown_shape_like(val, force_rank_only=rank_only)
    if out is None:
        return True
    if len(out) != 2:
        return False
    for new, old in zip(out, dims):
        # a dimension is either unchanged or made unknown; never a different concrete value
        if isinstance(new, int) and not (isinstance(old, int) and new == old):
            return False
    return True
'''


def kernel(tier, cov):
    from ..crosshair_util import run_conditions
    import jax2onnx.converter.ir_postprocess as pp

    if not hasattr(pp, "_unknown_shape_like"):
        cov["postprocess_kernel"] = "source no longer has _unknown_shape_like"
        return
    os.makedirs("/verif/.work", exist_ok=True)
    path = f"/verif/.work/c08_harness_{os.getpid()}.py"
    open(path, "w").write(KERNEL)
    res = run_conditions(path, ["unknown_shape_like_weakens"], 40 if tier == "quick" else 200)
    os.remove(path)
    cov["postprocess_kernel"] = {k: {"verdict": v.get("verdict"), "wall_s": v.get("wall_s"), "message": v.get("message", "")[-160:]} for k, v in res.items()}
    return res


ASSUMPTIONS = [
    "runtime shapes are computed by the shape-mode evaluator from the ONNX operator specification (dims as z3 integers >= 1 for named symbols, >= 0 for unnamed unknown dims)",
    "Loop bodies are evaluated once with loop-invariant carried shapes (an obligation); scan-output leading extents are fresh unknowns",
    "annotations inside nested bodies are decided but can only be replayed for top-graph values",
    "data-dependent shapes (NonZero, symbolic Slice bounds) make the program not encodable",
]


def main(tier):
    t0 = time.time()
    results, crashed = runner.run_sharded("j2ov.checks.c08", tier)
    violations = []
    agg = {}
    for r in results:
        for k, v in (r.get("stats") or {}).items():
            agg[k] = round(agg.get(k, 0) + v, 3)
        for c in r.get("confirmed") or []:
            violations.append({"key": f"{common.base_pid(r['job'])}|{c['kind']}|{c.get('value')}", "what": f"{c['text']} (binding {c.get('binding')}, runtime {c['replay'].get('runtime_shape')} declared {c['replay'].get('declared')})", "payload": {"job": r["job"], **c}})
    counts = {}
    for r in results:
        counts[r.get("status")] = counts.get(r.get("status"), 0) + 1
    decided = sum(1 for r in results if r.get("status") in ("proved", "violation"))
    cov = {
        "programs": decided,
        "programs_enumerated": len(results),
        "disagreements_checked": sum(len(r.get("confirmed") or []) + len(r.get("unconfirmed") or []) for r in results),
        "samples": [{"program": r["job"], "status": r["status"], "annotations_checked": (r.get("stats") or {}).get("annotations"), "symbols": r.get("symbols")} for r in results if r.get("status") in ("proved", "violation")][:4] or [{"note": "none"}],
        "verdicts": counts,
        "queries": agg,
        "solver_s": agg.get("solver_s", 0),
        "symbolic_programs_decided_for_all_bindings": sum(1 for r in results if r.get("status") == "proved" and r.get("symbols")),
        "not_encodable": sorted({(r.get("reason") or "")[:70] for r in results if r.get("status") == "not_encodable"})[:60],
        "inconclusive": [r["job"] for r in results if r.get("status") == "inconclusive"][:60],
        "bounds": {"dims": "named symbols >= 1 and < 2^31 (unbounded z3 Int)", "per_query_timeout_ms": 4000 if tier == "quick" else 30000},
        "worker_crashes": crashed,
    }
    try:
        kr = kernel(tier, cov)
        if kr and kr.get("unknown_shape_like_weakens", {}).get("verdict") == "counterexample":
            violations.append({"key": "ir_postprocess|_unknown_shape_like", "what": kr["unknown_shape_like_weakens"].get("message", "")[-300:], "payload": {}})
    except Exception as e:
        cov["postprocess_kernel"] = f"harness error: {type(e).__name__}: {e}"
    return common.finish(PROP, tier, t0, level="translation_validation", coverage=cov, assumptions=ASSUMPTIONS, violations=violations, decided=decided)


if __name__ == "__main__":
    sys.exit(main(common.tier_from_env(sys.argv[1] if len(sys.argv) > 1 else None)))
