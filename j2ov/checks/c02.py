"""C02 - the optimizer never changes what a model computes.

before/after translation validation of the REAL passes (each `_OPTIMIZER_PASSES` entry and the
whole `optimize_graph`) on (a) generated pattern neighbourhoods and (b) the real pre-optimization
graph of every encodable registered program; equivalence for all inputs is decided per output
element by z3 over the E2 ONNX evaluator."""
from __future__ import annotations

import copy
import sys
import time

import numpy as np
import onnx

from .. import equiv, onnx_sem, optgraphs, runner
from .. import sym as S
from ..sym import T, NotEncodable, DomainError
from ..onnx_sem import ModelInvalid
from . import common

PROP = "C02"
JOB_TIMEOUT_S = {"quick": 240, "thorough": 900}
CHUNK = 40
STOCHASTIC = {"RandomUniformLike", "RandomNormalLike", "RandomUniform", "RandomNormal", "Bernoulli", "Multinomial"}

BINDINGS_QUICK = [{"B": 2, "N": 3}, {"B": 3, "N": 3}, {"B": 1, "N": 2}]
BINDINGS_THOROUGH = BINDINGS_QUICK + [{"B": 5, "N": 1}, {"B": 7, "N": 5}, {"B": 2, "N": 2}]


def _ir():
    import onnx_ir as ir

    return ir


def run_passes(proto, which="all"):
    """Run the real optimizer on a copy of `proto`; returns the optimized ModelProto."""
    import jax2onnx.converter.ir_optimizations as iro

    ir = _ir()
    model = ir.serde.deserialize_model(copy.deepcopy(proto))
    if which == "all":
        iro.optimize_graph(model)
    else:
        p = iro._OPTIMIZER_PASSES[which]
        iro._run_top_level_optimizer_pass(p, model)
    return ir.serde.serialize_model(model)


def _inputs_of(model):
    init = {i.name for i in model.graph.initializer}
    return [g for g in model.graph.input if g.name not in init]


def _shape_of(vi, binding):
    shp = []
    for d in vi.type.tensor_type.shape.dim:
        if d.HasField("dim_value"):
            shp.append(int(d.dim_value))
        elif d.dim_param:
            shp.append(int(binding.get(d.dim_param, 3)))
        else:
            shp.append(3)
    return tuple(shp)


def _has_symbols(model):
    return any(d.dim_param for g in _inputs_of(model) for d in g.type.tensor_type.shape.dim)


def compare_models(before, after, binding, opts):
    """-> dict(status in proved|violation|inconclusive|not_encodable|harness_error, ...)"""
    constraints = []
    ins = {}
    tens = []
    for g in _inputs_of(before):
        dt = onnx_sem.np_dtype_of(g.type.tensor_type.elem_type)
        t = S.fresh_input(g.name.replace("/", "_"), _shape_of(g, binding), dt, constraints)
        ins[g.name] = t
        tens.append((g.name, t))
    before_names = set(ins)
    after_in = [g.name for g in _inputs_of(after)]
    for n in after_in:
        if n not in before_names:
            return {"status": "candidate", "reason": f"optimized model has a new input {n}"}
    stats = equiv.Stats()
    try:
        b_outs, bctx = onnx_sem.run_model(before, ins, unroll=opts["unroll"], unknown_elementwise_as_uf=True)
    except ModelInvalid as e:
        return {"status": "not_encodable", "reason": "input model invalid: " + str(e)[:200]}
    try:
        a_outs, actx = onnx_sem.run_model(after, {n: ins[n] for n in after_in}, unroll=opts["unroll"], unknown_elementwise_as_uf=True)
    except ModelInvalid as e:
        return {"status": "candidate", "reason": "optimized model invalid: " + str(e)[:200], "tens": tens}
    if [o.name for o in before.graph.output] and len(b_outs) != len(a_outs):
        return {"status": "candidate", "reason": f"output count {len(b_outs)} -> {len(a_outs)}", "tens": tens}
    for i, (a, b) in enumerate(zip(a_outs, b_outs)):
        if a.dtype != b.dtype:
            return {"status": "candidate", "reason": f"output {i} element type {b.dtype} -> {a.dtype}", "tens": tens}
    cmp = equiv.compare_outputs(
        a_outs, b_outs, constraints + S.representability_axioms([t for _, t in tens]) + bctx.domain + actx.domain + bctx.unwind + actx.unwind,
        tau=0.0 if opts.get("exact") else 1e-6, timeout_ms=opts["timeout_ms"], max_queries=opts["max_queries"], stats=stats,
        obligations=[(o, d) for o, d in actx.obligations if not any(o.eq(x) for x, _ in bctx.obligations)],
    )
    res = {"stats": stats.as_dict(), "tens": tens}
    if cmp["status"] == "shape_mismatch":
        res.update(status="candidate", reason="; ".join(cmp["detail"]))
    elif cmp["status"] == "sat":
        res.update(status="candidate", reason="values differ", models=[c.model for c in cmp["candidates"]])
    elif cmp["status"] == "vacuous":
        res.update(status="harness_error", reason="vacuity twin unsat")
    elif cmp["status"] == "proved" and not cmp.get("partial"):
        res.update(status="proved")
    else:
        res.update(status="inconclusive", reason=f"{cmp.get('unknown', 0)} unknown / partial")
    return res


def _concrete_feeds(tens, model=None):
    rng = np.random.default_rng(7)
    feeds = {}
    for name, t in tens:
        if model is not None:
            arr = equiv.model_inputs(model, [t])[0]
        else:
            if t.kind == "f":
                arr = (rng.standard_normal(t.shape) * 1.5).astype(t.dtype)
            elif t.kind == "i":
                arr = rng.integers(-4, 5, size=t.shape).astype(t.dtype)
            else:
                arr = rng.random(t.shape) > 0.5
        feeds[name] = np.require(np.asarray(arr), requirements="C")
    return feeds


def _count_ops(model, names):
    from ..pipeline import _all_nodes

    return sum(1 for n in _all_nodes(model.graph) if n.op_type in names)


def replay(before, after, tens, models):
    """ORT(before) vs ORT(after) on concrete feeds; True if the difference reproduces."""
    from ..pipeline import ort_run

    if _count_ops(before, STOCHASTIC):
        return _count_ops(before, STOCHASTIC) != _count_ops(after, STOCHASTIC), {"why": "stochastic node count changed"}
    feed_sets = [_concrete_feeds(tens, m) for m in (models or []) if m is not None] + [_concrete_feeds(tens)]
    after_in = {g.name for g in _inputs_of(after)}
    for feeds in feed_sets:
        try:
            b = ort_run(before, feeds)
        except Exception as e:
            return False, {"why": f"input model does not run in ORT: {str(e)[:150]}"}
        info = {"inputs": {k: v.tolist() for k, v in feeds.items()}, "before": [np.asarray(o).tolist() for o in b]}
        try:
            a = ort_run(after, {k: v for k, v in feeds.items() if k in after_in})
        except Exception as e:
            info["after_error"] = str(e)[:300]
            info["why"] = "optimized model fails in ORT"
            return True, info
        info["after"] = [np.asarray(o).tolist() for o in a]
        if len(a) != len(b):
            info["why"] = "output count changed"
            return True, info
        for i, (x, y) in enumerate(zip(a, b)):
            x, y = np.asarray(x), np.asarray(y)
            if x.shape != y.shape or x.dtype != y.dtype:
                info["why"] = f"output {i}: {y.dtype}{y.shape} -> {x.dtype}{x.shape}"
                return True, info
            if x.dtype.kind == "f":
                if not np.allclose(x, y, rtol=1e-5, atol=1e-6, equal_nan=True):
                    info["why"] = f"output {i} values differ"
                    return True, info
            elif not np.array_equal(x, y):
                info["why"] = f"output {i} values differ"
                return True, info
    return False, {}


def check_graph(name, before, tier, which_passes):
    opts = {"unroll": 4, "timeout_ms": 4000 if tier == "quick" else 30000, "max_queries": 64}
    bindings = [{}]
    if _has_symbols(before):
        bindings = BINDINGS_QUICK if tier == "quick" else BINDINGS_THOROUGH
    out = {"graph": name, "decided": 0, "violations": [], "inconclusive": [], "not_encodable": [], "stats": {}}
    for which in which_passes:
        try:
            after = run_passes(before, which)
        except Exception as e:
            # an exception inside a pass is the converter's loud path (C16), not a silent change
            out["inconclusive"].append(f"{which}: pass raised {type(e).__name__}: {str(e)[:100]}")
            continue
        for b in bindings:
            try:
                r = compare_models(before, after, b, opts)
            except (NotEncodable, DomainError) as e:
                out["not_encodable"].append(str(e)[:100])
                continue
            for k, v in (r.get("stats") or {}).items():
                out["stats"][k] = out["stats"].get(k, 0) + v
            if r["status"] == "proved":
                out["decided"] += 1
            elif r["status"] == "candidate":
                ok, info = replay(before, after, r.get("tens") or [], r.get("models"))
                if ok:
                    out["decided"] += 1
                    culprit = attribute_pass(before, b, opts) if which == "all" else _pass_names()[which]
                    cls = failure_class(r["reason"], info)
                    out["violations"].append({"key": f"{graph_key(name)}|pass={culprit}|{cls}", "what": f"{name}: {r['reason']}; {info.get('why','')}", "payload": {"graph": name, "pass": culprit, "binding": b, "replay": info, "before": onnx.printer.to_text(before)[:3000], "after": onnx.printer.to_text(after)[:3000]}})
                    break
                else:
                    out["inconclusive"].append(f"{which}: candidate not reproduced ({r['reason']}; {info.get('why','')})")
            elif r["status"] == "harness_error":
                out["inconclusive"].append(f"{which}: harness: {r.get('reason')}")
            else:
                out["inconclusive"].append(f"{which}: {r['status']} {r.get('reason','')}"[:160])
    return out


def failure_class(reason, info):
    t = (reason or "") + " " + (info.get("why") or "")
    if "invalid" in t or "fails in ORT" in t:
        return "invalid_model"
    if "shape" in t:
        return "shape"
    if "element type" in t or "dtype" in t:
        return "dtype"
    if "count" in t:
        return "output_count"
    return "values"


def graph_key(name):
    """identity of the failing pattern without the parameters that do not matter for the defect
    (which permutation, which elementwise operators)"""
    parts = name.split("/")
    if len(parts) >= 7 and parts[1] == "t_chain_t":
        second = parts[2].split("-")[1]
        chain = "nochain" if parts[3] == "none" else "chain"
        return "/".join([parts[0], parts[1], second, chain, parts[4], parts[5], parts[6]])
    if len(parts) >= 5 and parts[1] == "add_forest":
        return "/".join([parts[0], parts[1], parts[2].split("-")[1]] + parts[3:])
    if len(parts) >= 6 and parts[1] == "t_reduce_t":
        return "/".join([parts[0], parts[1], parts[2], "k" + parts[5][-1] if parts[5].startswith("k") else parts[5], parts[-1]])
    if len(parts) >= 5 and parts[1] == "r_chain_r":
        return "/".join([parts[0], parts[1], parts[2], "nochain" if parts[3] == "none" else "chain"] + parts[4:])
    return name


def attribute_pass(before, binding, opts):
    """apply the real passes cumulatively in pipeline order; the first pass after which the model
    differs from `before` (by evaluator or ORT) is the culprit"""
    import jax2onnx.converter.ir_optimizations as iro

    ir = _ir()
    model = ir.serde.deserialize_model(copy.deepcopy(before))
    for p in iro._OPTIMIZER_PASSES:
        try:
            iro._run_top_level_optimizer_pass(p, model)
            cur = ir.serde.serialize_model(model)
        except Exception:
            return p.name + "(raised)"
        try:
            r = compare_models(before, cur, binding, opts)
        except Exception:
            continue
        if r["status"] == "candidate":
            ok, _ = replay(before, cur, r.get("tens") or [], r.get("models"))
            if ok:
                return p.name
    return "pipeline"


def _pass_names():
    import jax2onnx.converter.ir_optimizations as iro

    return [p.name for p in iro._OPTIMIZER_PASSES]


_FAM_CACHE = {}


def _family(fam, tier):
    key = (fam, tier)
    if key not in _FAM_CACHE:
        _FAM_CACHE[key] = optgraphs.enumerate_family(fam, tier)
    return _FAM_CACHE[key]


def list_jobs(tier, families=None):
    jobs = []
    for fam in families or sorted(optgraphs.FAMILIES):
        n = len(_family(fam, tier))
        for k in range(0, n, CHUNK):
            jobs.append(f"A3/{fam}/{k}")
    if families is None:
        from .. import corpus

        jobs += corpus.registry_ids(include_f64=False)
    return jobs


def run_job(job, tier):
    import logging

    logging.disable(logging.WARNING)
    if job.startswith("A3/"):
        _, fam, k = job.split("/")
        items = _family(fam, tier)[int(k) : int(k) + CHUNK]
        which = ["all"] if tier == "quick" else ["all"] + list(range(len(_pass_names())))
        agg = {"job": job, "status": "ok", "graphs": 0, "decided": 0, "violations": [], "inconclusive": [], "not_encodable": 0, "stats": {}, "build_errors": []}
        for name, build in items:
            try:
                before = build()
            except Exception as e:
                agg["build_errors"].append(f"{name}: {type(e).__name__}: {str(e)[:120]}")
                continue
            r = check_graph("A3/" + name, before, tier, which)
            agg["graphs"] += 1
            agg["decided"] += r["decided"]
            agg["violations"] += r["violations"]
            agg["inconclusive"] += [f"{name}: {x}" for x in r["inconclusive"]]
            agg["not_encodable"] += len(r["not_encodable"])
            for kk, v in r["stats"].items():
                agg["stats"][kk] = agg["stats"].get(kk, 0) + v
        if items and not agg.get("sample"):
            agg["sample"] = {"graph": items[0][0]}
        return agg
    return real_graph_job(job, tier)


def real_graph_job(job, tier):
    """(b): the real pre-optimization graph of a registered program, before/after optimize_graph."""
    from .. import corpus, pipeline
    import jax2onnx.converter.conversion_api as capi

    ir = _ir()
    agg = {"job": job, "status": "ok", "graphs": 0, "decided": 0, "violations": [], "inconclusive": [], "not_encodable": 0, "stats": {}, "build_errors": []}
    try:
        prog = corpus.registry_program(job, max_input_elems=1024)
    except corpus.OutOfBound as e:
        agg["status"] = "out_of_bound"
        return agg
    cap = {}
    real = capi.optimize_graph

    def spy(model):
        try:
            cap["before"] = ir.serde.serialize_model(model)
        except Exception as e:  # pre-optimization graph not serialisable
            cap["err"] = f"{type(e).__name__}: {e}"
        return real(model)

    capi.optimize_graph = spy
    try:
        try:
            pipeline.export(prog)
        except Exception as e:
            agg["status"] = "export_failed"
            return agg
    finally:
        capi.optimize_graph = real
    if "before" not in cap:
        agg["status"] = "no_capture"
        return agg
    before = cap["before"]
    which = ["all"] if tier == "quick" else ["all"] + list(range(len(_pass_names())))
    r = check_graph(common.base_pid(job), before, tier, which)
    agg["graphs"] = 1
    agg["decided"] = r["decided"]
    agg["violations"] = r["violations"]
    agg["inconclusive"] = r["inconclusive"]
    agg["not_encodable"] = len(r["not_encodable"])
    agg["stats"] = r["stats"]
    return agg


def aggregate(results):
    tot = {"graphs": 0, "decided": 0, "not_encodable": 0}
    stats = {}
    violations, inconclusive, build_errors = [], [], []
    for r in results:
        for k in tot:
            tot[k] += r.get(k, 0) or 0
        for k, v in (r.get("stats") or {}).items():
            stats[k] = stats.get(k, 0) + v
        violations += r.get("violations") or []
        inconclusive += r.get("inconclusive") or []
        build_errors += r.get("build_errors") or []
        if r.get("status") in ("timeout", "crashed", "harness_error"):
            inconclusive.append(f"{r.get('job')}: {r.get('status')} {r.get('reason','')}"[:200])
    return tot, stats, violations, inconclusive, build_errors


def run_family(fam, tier):
    """used by C17 (cast_pair) and C12."""
    results = [run_job(j, tier) for j in list_jobs(tier, families=[fam])]
    tot, stats, violations, inconclusive, build_errors = aggregate(results)
    return {
        "summary": {**tot, "queries": {k: (round(v, 2) if isinstance(v, float) else v) for k, v in stats.items()}, "inconclusive": inconclusive[:40], "build_errors": build_errors[:10]},
        "violations": violations,
        "samples": [{"family": fam, "graphs": tot["graphs"], "example": "Cast(T->U)->Cast(U->T) before/after remove_redundant_casts_ir"}],
    }


ASSUMPTIONS = [
    "float inputs finite, |x| <= 2^16; Real arithmetic with uninterpreted transcendentals; unknown elementwise operators as uninterpreted functions per (op, attributes)",
    "comparator: exact for ints/bools, |a-b| <= 1e-6(1+|b|) for floats (rewrites are structural)",
    "symbolic dims are evaluated for a lattice of bindings (value mode); C04's shape mode covers all bindings",
    "a pass that raises is the loud path (C16) and is not counted here",
    "stochastic operators are fresh symbols per node in evaluation order; replay compares node counts",
    "every candidate is replayed: ORT(before) vs ORT(after)",
]


def main(tier):
    t0 = time.time()
    results, crashed = runner.run_sharded("j2ov.checks.c02", tier)
    tot, stats, violations, inconclusive, build_errors = aggregate(results)
    cov = {
        "programs": tot["decided"],
        "graphs_enumerated": tot["graphs"],
        "disagreements_checked": len(violations) + sum(1 for x in inconclusive if "not reproduced" in x),
        "samples": [r.get("sample") for r in results if r.get("sample")][:3] + [{"graph": v["key"], "what": v["what"]} for v in violations[:3]] or [{"note": "none"}],
        "queries": {k: (round(v, 2) if isinstance(v, float) else v) for k, v in stats.items()},
        "solver_s": round(stats.get("solver_s", 0.0), 2),
        "functions_encoded": ["optimize_graph (whole pipeline)"] + (["each of: " + ", ".join(_pass_names())] if tier == "thorough" else []),
        "families": {fam: len(_family(fam, tier)) for fam in sorted(optgraphs.FAMILIES)},
        "real_graphs": sum(1 for r in results if str(r.get("job", "")).startswith("R/") and r.get("graphs")),
        "inconclusive": inconclusive[:200],
        "inconclusive_count": len(inconclusive),
        "not_encodable": tot["not_encodable"],
        "build_errors": build_errors[:20],
        "bounds": {"nodes_per_generated_graph": "<= 8", "dims": "2,3,4 distinct; symbolic B,N over " + str(BINDINGS_QUICK if tier == "quick" else BINDINGS_THOROUGH), "per_query_timeout_ms": 4000 if tier == "quick" else 30000},
        "worker_crashes": crashed,
    }
    return common.finish(PROP, tier, t0, level="translation_validation", coverage=cov, assumptions=ASSUMPTIONS, violations=violations, decided=tot["decided"])


if __name__ == "__main__":
    sys.exit(main(common.tier_from_env(sys.argv[1] if len(sys.argv) > 1 else None)))
