"""C09 - the precision flag is honoured end to end.

E2 at double precision: the enable_double_precision=True export is compared, for all inputs, with
the jaxpr traced under x64; every precision-lowering cast is a NON-identity uninterpreted rounding
and every constant is taken at its stored value, so a hidden float32 round trip or a constant that
went through float32 is a satisfiable difference (comparator 1e-10 relative; replay at 1e-12 on
inputs that are not representable in float32).  Side conditions: with the flag off no DOUBLE tensor
/ Cast / constant occurs anywhere (typed recursive walk) and float outputs are FLOAT; the JAX x64
flag is restored on every exit path."""
from __future__ import annotations

import sys
import time

import numpy as np
import onnx

from .. import corpus, families, pipeline, runner
from . import common, c01

PROP = "C09"
JOB_TIMEOUT_S = {"quick": 120, "thorough": 600}
F32, F64, I32 = np.float32, np.float64, np.int32

_PREC = None


def precision_programs():
    global _PREC
    if _PREC is not None:
        return _PREC
    import jax
    import jax.numpy as jnp
    from jax import lax
    from flax import nnx

    mk = lambda fn, specs, **kw: pipeline.Program(pid="", fn=fn, specs=[(tuple(s), np.dtype(d)) for s, d in specs], config={"enable_double_precision": True}, **kw)
    p = {}
    w32 = np.array([0.1, 0.2, 0.3], dtype=np.float32)
    w64 = np.array([0.1, 0.2, 0.3], dtype=np.float64)
    p["py_scalar_const"] = mk(lambda x: x * 0.1 + 0.3, [((3,), F32)])
    p["np_f64_const"] = mk(lambda x: x * w64, [((3,), F32)])
    p["np_f32_const"] = mk(lambda x: x * w32, [((3,), F32)])
    p["jnp_array_const"] = mk(lambda x: x + jnp.array([0.1, 0.7, 1.3]), [((3,), F32)])
    p["pi_const"] = mk(lambda x: x * jnp.pi, [((3,), F32)])
    p["linspace_const"] = mk(lambda x: x * jnp.linspace(0.0, 1.0, 3), [((3,), F32)])
    p["arange_float"] = mk(lambda x: x + jnp.arange(3) * 0.1, [((3,), F32)])
    p["division_const"] = mk(lambda x: x / 3.0, [((3,), F32)])
    p["mean"] = mk(lambda x: jnp.mean(x), [((3,), F32)])
    p["softmax"] = mk(lambda x: jax.nn.softmax(x), [((3,), F32)])
    p["gelu"] = mk(lambda x: jax.nn.gelu(x), [((3,), F32)])
    p["layer_norm_manual"] = mk(lambda x: (x - x.mean()) / jnp.sqrt(x.var() + 1e-5), [((4,), F32)])
    p["cast_roundtrip_explicit_f32"] = mk(lambda x: x.astype(jnp.float32).astype(jnp.float64) * 2.0, [((3,), F32)])
    p["where_const"] = mk(lambda x: jnp.where(x > 0.1, x, 0.1), [((3,), F32)])
    p["clip_const"] = mk(lambda x: jnp.clip(x, 0.1, 0.9), [((3,), F32)])
    p["cond_const"] = mk(lambda x: lax.cond(x[0] > 0, lambda a: a * 0.1, lambda a: a + 0.7, x), [((3,), F32)])
    p["scan_const"] = mk(lambda xs: lax.scan(lambda c, a: (c * 0.9 + a * 0.1, c), 0.3, xs)[1], [((3,), F32)])
    p["while_const"] = mk(lambda x: lax.fori_loop(0, 3, lambda i, a: a * 1.1 + 0.1, x), [((2,), F32)])
    p["int_to_float"] = mk(lambda i: i.astype(jnp.float64) * 0.1, [((3,), I32)])
    p["iota_float"] = mk(lambda x: x + lax.iota(jnp.float64, 3) * 0.1, [((3,), F32)])
    p["full_const"] = mk(lambda x: x + jnp.full((3,), 0.1), [((3,), F32)])
    p["matmul_const"] = mk(lambda x: x @ (np.arange(6, dtype=np.float64).reshape(3, 2) * 0.1), [((3,), F32)])
    p["power_const"] = mk(lambda x: x ** 2 * 0.1, [((3,), F32)])
    p["sum_of_squares"] = mk(lambda x: jnp.sum(x * x) * 0.1, [((3,), F32)])

    # constants the converter PRE-COMPUTES at conversion time by evaluating JAX itself (resampling
    # weights, window functions, tables): the evaluation must happen at the requested precision
    try:
        import jax.image as jimage

        for meth in ("linear", "cubic", "area", "cubic-pytorch", "nearest"):
            tag = meth.replace("-", "_")
            p[f"precomp/resize_{tag}_3x4_to_2x3"] = mk((lambda meth: (lambda x: jimage.resize(x, (2, 3), method=meth, antialias=False)))(meth), [((3, 4), F32)])
            p[f"precomp/resize_{tag}_3x4_to_5x7"] = mk((lambda meth: (lambda x: jimage.resize(x, (5, 7), method=meth, antialias=False)))(meth), [((3, 4), F32)])
    except Exception:
        pass
    for wn in ("hamming", "hanning", "blackman", "bartlett", "kaiser"):
        if hasattr(jnp, wn):
            p[f"precomp/window_{wn}"] = mk((lambda wn: (lambda x: x * (getattr(jnp, wn)(5) if wn != "kaiser" else jnp.kaiser(5, 3.0))))(wn), [((5,), F32)])
    p["precomp/linspace_third"] = mk(lambda x: x * jnp.linspace(0.0, 1.0, 4)[1:], [((3,), F32)])
    p["precomp/arange_scaled"] = mk(lambda x: x + jnp.arange(0.0, 0.9, 0.3), [((3,), F32)])
    p["precomp/eye_scaled"] = mk(lambda x: x @ (jnp.eye(3) / 3.0), [((3,), F32)])
    p["precomp/tri_mean"] = mk(lambda x: x @ (jnp.tri(3) / 7.0), [((3,), F32)])

    class Lin(nnx.Module):
        def __init__(self):
            self.w = nnx.Param(jnp.asarray([[0.1, 0.2], [0.3, 0.4], [0.5, 0.6]], dtype=jnp.float64))
            self.b = nnx.Param(jnp.asarray([0.1, -0.1], dtype=jnp.float64))

        def __call__(self, x):
            return x @ self.w[...] + self.b[...]

    def mk_lin():
        with pipeline.x64_mode(True):
            m = Lin()
        return m

    p["module_params_f64"] = mk(mk_lin(), [((3,), F32)])
    # producer x consumer compositions: a consumer plugin that builds its own constants must take the
    # dtype from the operand even when the producer left the IR value untyped
    producers = {
        "outer": (lambda a, b: jnp.outer(a, b), 2), "matmul": (lambda a, b: a[:, None] @ b[None, :], 2), "einsum": (lambda a, b: jnp.einsum("i,j->ij", a, b), 2),
        "concat": (lambda a, b: jnp.concatenate([a, b]), 2), "stack": (lambda a, b: jnp.stack([a, b]), 2), "where": (lambda a, b: jnp.where(a > b, a, b), 2),
        "cumsum": (lambda a, b: jnp.cumsum(a * b), 2), "reshape": (lambda a, b: (a * b).reshape(3, 1), 2), "tile": (lambda a, b: jnp.tile(a + b, 2), 2),
        "take": (lambda a, b: jnp.take(a * b, jnp.array([2, 0])), 2), "dot": (lambda a, b: jnp.dot(a, b), 2), "max": (lambda a, b: jnp.maximum(a, b), 2),
        "sum": (lambda a, b: jnp.sum(a * b, keepdims=True), 2), "transpose": (lambda a, b: jnp.outer(a, b).T, 2), "squeeze": (lambda a, b: jnp.squeeze((a * b)[None]), 2),
        "pad": (lambda a, b: jnp.pad(a * b, 1), 2), "sort": (lambda a, b: jnp.sort(a + b), 2), "clip": (lambda a, b: jnp.clip(a, -1.0, 1.0) * b, 2),
    }
    consumers = {
        "cbrt": lambda v: jnp.cbrt(v), "rsqrt": lambda v: lax.rsqrt(jnp.abs(v) + 1.0), "expm1": lambda v: jnp.expm1(v), "log1p": lambda v: jnp.log1p(jnp.abs(v)),
        "sigmoid": lambda v: jax.nn.sigmoid(v), "softplus": lambda v: jax.nn.softplus(v), "gelu": lambda v: jax.nn.gelu(v), "silu": lambda v: jax.nn.silu(v),
        "exp2": lambda v: jnp.exp2(v), "reciprocal": lambda v: jnp.reciprocal(jnp.abs(v) + 1.0), "square_root3": lambda v: jnp.sqrt(jnp.abs(v)) * (1.0 / 3.0),
        "leaky": lambda v: jax.nn.leaky_relu(v, 0.1), "elu": lambda v: jax.nn.elu(v), "selu": lambda v: jax.nn.selu(v), "log_sigmoid": lambda v: jax.nn.log_sigmoid(v),
        "tanh_half": lambda v: jnp.tanh(v * 0.5), "pow_third": lambda v: jnp.power(jnp.abs(v) + 1.0, 1.0 / 3.0), "erf": lambda v: jax.scipy.special.erf(v) if hasattr(jax, "scipy") else v,
    }
    for pn, (pf, _) in producers.items():
        for cn, cf in consumers.items():
            p[f"comp/{pn}.{cn}"] = mk((lambda pf, cf: (lambda a, b: cf(pf(a, b))))(pf, cf), [((3,), F32), ((3,), F32)])
    try:
        from jax2onnx import onnx_function

        @onnx_function
        class FnBody(nnx.Module):
            def __call__(self, x):
                return x * 0.1 + jnp.array([0.1, 0.2, 0.3])

        p["function_body_const"] = mk(lambda x: FnBody()(x) * 3.0, [((3,), F32)])
    except Exception:
        pass
    _PREC = p
    return p


def list_jobs(tier):
    names = sorted(precision_programs())
    comp = [n for n in names if n.startswith("comp/")]
    names = [n for n in names if not n.startswith("comp/")] + (comp if tier == "thorough" else comp[::3])
    ids = [f"P/{n}" for n in names]
    f64 = [i for i in corpus.registry_ids(include_f64=True) if "_f64#" in i]
    ids += f64 if tier == "thorough" else f64[:: max(1, len(f64) // 150)]
    a1 = families.ids("A1", tier)
    ids += [f"D/{i}" for i in (a1 if tier == "thorough" else sorted(set(a1[::4] + [i for i in a1 if "/dbl." in i])))]
    a1q = families.ids("A1", "quick")
    ids += [f"OFF/{i}" for i in (corpus.registry_ids()[::9] + sorted(set(a1q[::5] + [i for i in families.ids("A1", tier) if "/mixdt." in i])))]
    return ids


def options(tier):
    return pipeline.Options(tau=1e-10, timeout_ms=2500 if tier == "quick" else 30000, max_queries=48 if tier == "quick" else 128, unroll=4, max_unknown=1 if tier == "quick" else 2, budget_s=20.0 if tier == "quick" else 90.0, ort_reject_is_violation=True)


def get(job):
    if job.startswith("P/"):
        p = precision_programs()[job[2:]]
        p.pid = job
        return p
    if job.startswith("D/"):
        p = c01.get_program(job[2:])
        p.config = dict(p.config, enable_double_precision=True)
        p.pid = job
        return p
    return c01.get_program(job)


def scan_double(model):
    """typed recursive walk: any DOUBLE tensor, Cast-to-double, or double value_info"""
    from ..pipeline import _all_nodes

    D = onnx.TensorProto.DOUBLE
    hits = []

    def graph(g, where):
        for t in g.initializer:
            if t.data_type == D:
                hits.append(f"{where}: initializer {t.name}")
        for vi in list(g.input) + list(g.output) + list(g.value_info):
            if vi.type.tensor_type.elem_type == D:
                hits.append(f"{where}: value {vi.name}")
        for n in g.node:
            for a in n.attribute:
                if a.type == onnx.AttributeProto.TENSOR and a.t.data_type == D:
                    hits.append(f"{where}: constant attribute of {n.op_type}")
                if n.op_type in ("Cast", "RandomUniform", "RandomNormal", "EyeLike", "RandomUniformLike", "RandomNormalLike") and a.name in ("to", "dtype") and a.i == D:
                    hits.append(f"{where}: {n.op_type} to double")
                if a.type == onnx.AttributeProto.GRAPH:
                    graph(a.g, where + "/" + n.op_type)
                if a.type == onnx.AttributeProto.GRAPHS:
                    for sg in a.graphs:
                        graph(sg, where + "/" + n.op_type)

    graph(model.graph, "graph")
    for f in model.functions:
        for n in f.node:
            for a in n.attribute:
                if a.type == onnx.AttributeProto.TENSOR and a.t.data_type == D:
                    hits.append(f"function {f.name}: constant")
                if n.op_type == "Cast" and a.name == "to" and a.i == D:
                    hits.append(f"function {f.name}: Cast to double")
    return hits


def run_job(job, tier):
    if job.startswith("OFF/"):
        try:
            p = c01.get_program(job[4:])
        except corpus.OutOfBound:
            return {"job": job, "status": "out_of_bound"}
        if any(np.dtype(dt) == np.float64 for _, dt in p.specs):
            return {"job": job, "status": "out_of_bound", "reason": "float64 spec"}
        p.config = {k: v for k, v in p.config.items() if k != "enable_double_precision"}
        try:
            m = pipeline.export(p)
        except Exception as e:
            return {"job": job, "status": "export_failed", "reason": str(e)[:200]}
        hits = scan_double(m)
        if hits:
            return {"job": job, "status": "violation", "kind": "double_with_flag_off", "witness": {"why": "; ".join(hits[:5])}}
        return {"job": job, "status": "proved", "flag_off": True}
    try:
        p = get(job)
    except corpus.OutOfBound as e:
        return {"job": job, "status": "out_of_bound", "reason": str(e)}
    r = pipeline.analyze(p, options(tier))
    if r.get("ref_narrow_float"):
        # premise of C09: "the callable as evaluated by JAX in 64-bit mode involves only float64
        # floating values" - this one narrows internally (e.g. attention softmax in float32)
        r["status_under_c01"] = r.get("status")
        r["status"] = "out_of_premise"
        r["reason"] = "JAX's own x64 evaluation produces float32 intermediates"
    return r


ASSUMPTIONS = list(c01.ASSUMPTIONS) + [
    "precision-lowering casts are uninterpreted NON-identity roundings (rnd32/rnd16); inputs are arbitrary reals (not assumed float32-representable in double mode); constants at their stored values",
    "comparator 1e-10 relative inside the solver; replay at 1e-9/1e-12 against JAX x64 incl. inputs perturbed to be non-representable in float32",
    "accuracy of ONNX Runtime's double kernels themselves is outside the claim",
    "programs whose JAX x64 evaluation itself produces float32/float16 intermediates are outside the property's premise (status out_of_premise; C01 still compares them at single-precision accuracy)",
]


def main(tier):
    t0 = time.time()
    results, crashed = runner.run_sharded("j2ov.checks.c09", tier)
    violations = c01.collect(results, PROP)
    cov = c01.evidence_coverage([r for r in results if not r.get("flag_off")], tier)
    cov["flag_off_models_scanned"] = sum(1 for r in results if r.get("flag_off") or r.get("kind") == "double_with_flag_off")
    from .c13 import x64_paths

    n, bad = x64_paths()
    cov["x64_restore_paths"] = n
    for b in bad:
        violations.append({"key": "x64|" + b.split(":")[0], "what": b, "payload": {}})
    cov["worker_crashes"] = crashed
    cov["bounds"]["comparator"] = "1e-10 relative"
    return common.finish(PROP, tier, t0, level="translation_validation", coverage=cov, assumptions=ASSUMPTIONS, violations=violations, decided=cov["programs"])


if __name__ == "__main__":
    sys.exit(main(common.tier_from_env(sys.argv[1] if len(sys.argv) > 1 else None)))
