"""C19 - library calls keep their call signature while traced.

Signature inclusion by z3: for every binding spec the original callable and the installed
substitute are read with inspect.signature; Python's argument-binding rules are encoded over a
SYMBOLIC CALL FORM (number of positionals, one Bool per keyword name, one fresh keyword); the
query accepts(orig) & ~accepts(substitute) is decided by z3.  Every sat model is a concrete
call form and is replayed with Signature.bind on the live objects.
"""
from __future__ import annotations

import inspect
import re
import sys
import time

import z3

from . import common

PROP = "C19"
P = inspect.Parameter


def collect_specs():
    """-> list of dict(owner, target, attr, orig, sub, kind)"""
    import logging

    logging.disable(logging.WARNING)
    from jax2onnx.plugins import plugin_system as ps
    from jax2onnx.plugins._patching import AssignSpec, MonkeyPatchSpec, _resolve, _MISSING

    ps.import_all_plugins()
    out = []
    errors = []
    seen = set()
    for name, plugin in ps.PLUGIN_REGISTRY.items():
        cls = plugin.__class__
        if isinstance(plugin, ps.PrimitiveLeafPlugin):
            try:
                specs = cls.binding_specs()
            except Exception as e:
                errors.append(f"{name}: binding_specs raised {type(e).__name__}: {e}")
                continue
            for s in specs:
                try:
                    tgt = _resolve(s.target)
                    orig = getattr(tgt, s.attr, _MISSING)
                    if orig is _MISSING:
                        continue
                    if isinstance(s, AssignSpec):
                        sub = s.value
                    else:
                        sub = s.make_value(orig)
                except Exception as e:
                    errors.append(f"{name}: {getattr(s,'attr','?')}: {type(e).__name__}: {e}")
                    continue
                key = (id(tgt), s.attr, name)
                if key in seen:
                    continue
                seen.add(key)
                out.append({"owner": name, "target": tgt, "attr": s.attr, "orig": orig, "sub": sub})
    try:
        for patch_fn, targets, attr in ps._iter_patch_specs():
            for tgt in targets:
                try:
                    orig = getattr(tgt, attr)
                    sub = patch_fn(orig)
                except Exception as e:
                    errors.append(f"function patch {tgt}.{attr}: {type(e).__name__}: {e}")
                    continue
                out.append({"owner": "function_plugin", "target": tgt, "attr": attr, "orig": orig, "sub": sub})
    except Exception as e:
        errors.append(f"_iter_patch_specs: {type(e).__name__}: {e}")
    return out, errors


def target_name(t):
    mod = getattr(t, "__module__", None)
    qn = getattr(t, "__qualname__", None) or getattr(t, "__name__", None)
    if inspect.ismodule(t):
        return t.__name__
    return f"{mod}.{qn}" if mod and qn else repr(t)[:60]


def sig_of(obj):
    try:
        return inspect.signature(obj)
    except (TypeError, ValueError):
        return None


class Form:
    """symbolic call form"""

    def __init__(self, names, max_pos):
        self.npos = z3.Int("npos")
        self.kw = {n: z3.Bool(f"kw_{n}") for n in names}
        self.fresh = z3.Bool("kw___fresh__")
        self.max_pos = max_pos

    def base(self):
        return [self.npos >= 0, self.npos <= self.max_pos]


def accepts(sig: inspect.Signature, f: Form, rename_first=None):
    params = list(sig.parameters.values())
    pos = [p for p in params if p.kind in (P.POSITIONAL_ONLY, P.POSITIONAL_OR_KEYWORD)]
    has_var = any(p.kind == P.VAR_POSITIONAL for p in params)
    has_kw = any(p.kind == P.VAR_KEYWORD for p in params)
    ko = [p for p in params if p.kind == P.KEYWORD_ONLY]
    conds = []
    if not has_var:
        conds.append(f.npos <= len(pos))

    def nm(p, i=None):
        if rename_first is not None and i == 0:
            return rename_first
        return p.name

    kwable = {}
    for i, p in enumerate(pos):
        n = nm(p, i)
        if p.kind == P.POSITIONAL_OR_KEYWORD:
            kwable[n] = ("pk", i, p)
    for p in ko:
        kwable[p.name] = ("ko", None, p)
    po_names = {nm(p, i) for i, p in enumerate(pos) if p.kind == P.POSITIONAL_ONLY}
    for n, b in f.kw.items():
        if n in kwable:
            kind, i, p = kwable[n]
            if kind == "pk":
                conds.append(z3.Implies(b, f.npos <= i))  # otherwise multiple values
        else:
            if not has_kw:
                conds.append(z3.Not(b))
    if not has_kw:
        conds.append(z3.Not(f.fresh))
    for i, p in enumerate(pos):
        if p.default is P.empty:
            n = nm(p, i)
            if p.kind == P.POSITIONAL_OR_KEYWORD and n in f.kw:
                conds.append(z3.Or(f.npos > i, f.kw[n]))
            else:
                conds.append(f.npos > i)
    for p in ko:
        if p.default is P.empty:
            conds.append(f.kw[p.name] if p.name in f.kw else z3.BoolVal(False))
    return z3.And(*conds) if conds else z3.BoolVal(True)


def names_of(sig, rename_first=None):
    out = []
    first = True
    for p in sig.parameters.values():
        if p.kind in (P.POSITIONAL_ONLY, P.POSITIONAL_OR_KEYWORD):
            if first and rename_first is not None:
                out.append(rename_first)
            elif p.kind == P.POSITIONAL_OR_KEYWORD:
                out.append(p.name)
            first = False
        elif p.kind == P.KEYWORD_ONLY:
            out.append(p.name)
    return out


def concrete_call(model, f: Form):
    npos = model.eval(f.npos, model_completion=True).as_long()
    kws = sorted(n for n, b in f.kw.items() if z3.is_true(model.eval(b, model_completion=True)))
    if z3.is_true(model.eval(f.fresh, model_completion=True)):
        kws.append("zz_new_keyword")
    return npos, kws


def binds(sig, npos, kws, rename_first=None):
    sent = object()
    kwargs = {}
    first_name = None
    if rename_first is not None:
        for p in sig.parameters.values():
            if p.kind in (P.POSITIONAL_ONLY, P.POSITIONAL_OR_KEYWORD):
                first_name = p.name
                break
    for k in kws:
        kwargs[first_name if (k == rename_first and first_name) else k] = sent
    try:
        sig.bind(*([sent] * npos), **kwargs)
        return True
    except TypeError:
        return False


def analyse_spec(spec, stats):
    so, ss = sig_of(spec["orig"]), sig_of(spec["sub"])
    if so is None or ss is None:
        stats["no_signature"] += 1
        return []
    tgt = spec["target"]
    is_method = inspect.isclass(tgt) and inspect.isfunction(spec["orig"])
    rename = "self" if is_method else None
    names = sorted(set(names_of(so, rename)) | set(names_of(ss, rename)))
    npos_max = max(
        len([p for p in s.parameters.values() if p.kind in (P.POSITIONAL_ONLY, P.POSITIONAL_OR_KEYWORD)]) for s in (so, ss)
    ) + 1
    f = Form(names, npos_max)
    base = f.base()
    if is_method:
        base += [f.npos >= 1]
        if "self" in f.kw:
            base.append(z3.Not(f.kw["self"]))
    a_o, a_s = accepts(so, f, rename), accepts(ss, f, rename)
    # realism: the leading data argument is always supplied (positionally or by its original name)
    opos = [p for p in so.parameters.values() if p.kind in (P.POSITIONAL_ONLY, P.POSITIONAL_OR_KEYWORD)]
    lead = 1 if is_method else 0
    if len(opos) > lead:
        p0 = opos[lead]
        c = f.npos > lead
        if p0.kind == P.POSITIONAL_OR_KEYWORD and p0.name in f.kw:
            c = z3.Or(c, f.kw[p0.name])
        base.append(c)
    findings = []
    blocked = []
    for _ in range(12):
        # minimise keywords, then positionals
        opt = z3.Optimize()
        opt.set("timeout", 10000)
        for c in base + blocked:
            opt.add(c)
        opt.add(a_o, z3.Not(a_s))
        nkw = z3.Sum([z3.If(b, 1, 0) for b in list(f.kw.values()) + [f.fresh]]) if f.kw else z3.If(f.fresh, 1, 0)
        opt.minimize(nkw)
        opt.minimize(f.npos)
        t0 = time.time()
        r = str(opt.check())
        stats["solver_s"] += time.time() - t0
        stats["queries"] += 1
        if r == "unsat":
            stats["unsat"] += 1
            break
        if r != "sat":
            stats["unknown"] += 1
            break
        stats["sat"] += 1
        npos, kws = concrete_call(opt.model(), f)
        ok = binds(so, npos, kws, rename) and not binds(ss, npos, kws, rename)
        # offending element: a keyword the substitute rejects, else the positional count
        offending = None
        for k in kws:
            rest = [x for x in kws if x != k]
            if binds(ss, npos, rest, rename) or not binds(so, npos, rest, rename):
                offending = f"kw:{k}"
                break
        if offending is None:
            offending = f"npos:{npos}"
        # name the parameter of the ORIGINAL that the substitute cannot bind
        if offending.startswith("kw:"):
            pname = offending[3:]
        else:
            pname = opos[npos - 1].name if 0 < npos <= len(opos) else "*args"
        if ok:
            stats["replayed"] += 1
            findings.append({"offending": offending, "param": pname, "npos": npos, "keywords": kws})
        else:
            stats["spurious"] += 1
        # block this offending element and look for a different one
        if offending.startswith("kw:"):
            k = offending[3:]
            blocked.append(z3.Not(f.kw[k]) if k in f.kw else z3.Not(f.fresh))
        else:
            blocked.append(f.npos != npos)
    else:
        stats["iteration_bound_hit"] += 1
    return [(spec, so, ss, fd) for fd in findings]


def twin(stats):
    """vacuity twin: a deliberately narrower substitute must be refuted"""
    def orig(self, x, *, deterministic=None, rngs=None):
        pass

    def sub(self, x, deterministic=None):
        pass

    st = {k: 0 for k in ("solver_s", "queries", "unsat", "sat", "unknown", "replayed", "spurious", "no_signature", "iteration_bound_hit")}
    cls = type("C", (), {"__call__": orig})
    res = analyse_spec({"target": cls, "attr": "__call__", "orig": orig, "sub": sub}, st)
    return any(fd["offending"] == "kw:rngs" for _, _, _, fd in res)


# --------------------------------------------------------------------------- part 2: call forms through E2

JOB_TIMEOUT_S = {"quick": 90, "thorough": 300}
_CF = None


def callforms():
    """For every substituted FUNCTION whose original has optional scalar parameters: one call per
    parameter with a non-default value, passed positionally and by keyword.  Obligation (C01
    pipeline): the export raises, or the model is proved equivalent to JAX - an argument that is
    silently ignored shows up as a value difference."""
    global _CF
    if _CF is not None:
        return _CF
    import numpy as np

    specs, _ = collect_specs()
    out = {}
    seen = set()
    for sp in specs:
        tgt, attr, orig = sp["target"], sp["attr"], sp["orig"]
        if inspect.isclass(tgt) or not inspect.ismodule(tgt) or not callable(orig):
            continue
        mod = tgt.__name__
        if not (mod.startswith("jax.nn") or mod.startswith("jax.numpy") or mod in ("flax.nnx", "flax.linen", "flax.linen.activation", "jax.lax")):
            continue
        so = sig_of(orig)
        if so is None or (mod, attr) in seen:
            continue
        seen.add((mod, attr))
        params = list(so.parameters.values())
        req = [p for p in params if p.default is P.empty and p.kind in (P.POSITIONAL_ONLY, P.POSITIONAL_OR_KEYWORD)]
        if not (1 <= len(req) <= 2):
            continue
        opt = [p for p in params if p.default is not P.empty and p.kind in (P.POSITIONAL_OR_KEYWORD, P.KEYWORD_ONLY)]
        pos_index = {p.name: i for i, p in enumerate([q for q in params if q.kind in (P.POSITIONAL_ONLY, P.POSITIONAL_OR_KEYWORD)])}
        singles = []
        for p_ in opt:
            d = p_.default
            vals = []
            if isinstance(d, bool):
                vals = [not d]
            elif isinstance(d, float):
                vals = [d * 2.0 + 0.5]
            elif isinstance(d, int):
                vals = [d + 1] if p_.name not in ("axis",) else [0]
            elif d is None and p_.name in ("axis",):
                vals = [0, -1]
            elif d is None and p_.name in ("keepdims",):
                vals = [True]
            elif d is None and p_.name in ("alpha", "negative_slope", "approximate", "min", "max", "a_min", "a_max", "decimals"):
                vals = [0.25] if p_.name != "decimals" else [1]
            elif d is None and p_.name in ("b", "weights"):
                vals = ["ARRAY_F"]
            elif d is None and p_.name in ("where", "mask"):
                vals = ["ARRAY_B"]
            if vals:
                singles.append((p_.name, vals[0]))
            for v in vals:
                forms = [("kw", v)]
                if p_.kind == P.POSITIONAL_OR_KEYWORD and pos_index.get(p_.name) == len(req):
                    forms.append(("pos", v))
                for form, val in forms:
                    out[f"CF/{mod}.{attr}/{p_.name}={val!r}/{form}"] = (mod, attr, len(req), p_.name, val, form)
                if isinstance(v, int) and not isinstance(v, bool):
                    # the same argument as a NumPy integer scalar / a one-element tuple: library functions
                    # accept any integer-like (operator.index), a substitute that dispatches on `int` does not
                    out[f"CF/{mod}.{attr}/{p_.name}=np.int64({v!r})/kw"] = (mod, attr, len(req), p_.name, ("NPINT", v), "kw")
                    if p_.name == "axis":
                        out[f"CF/{mod}.{attr}/{p_.name}=({v!r},)/kw"] = (mod, attr, len(req), p_.name, (v,), "kw")
                        out[f"CF/{mod}.{attr}/{p_.name}=[{v!r}]/kw"] = (mod, attr, len(req), p_.name, ("LIST", v), "kw")
        # ALL optional arguments non-default at once (keyword form).  Candidate values per parameter; the
        # un-patched library function itself decides which combination is a valid call (evaluated
        # eagerly on a sample operand), preferring combinations whose result differs from the default
        # call, so that an argument silently re-bound or dropped changes the output.
        cands = []
        for p_ in opt:
            d = p_.default
            if isinstance(d, bool):
                cands.append((p_.name, [not d]))
            elif isinstance(d, float):
                cands.append((p_.name, [d * 2.0 + 0.5]))
            elif isinstance(d, int):
                cands.append((p_.name, [d + 1, d - 1, 0, -1, 1] if p_.name != "axis" else [0, -1, 1]))
            elif d is None and p_.name == "axis":
                cands.append((p_.name, [0, -1, 1]))
            elif d is None and p_.name == "keepdims":
                cands.append((p_.name, [True]))
        if len(cands) >= 2:
            chosen = _valid_all_forms(orig, len(req), cands)
            for names, vals in chosen:
                out[f"CFA/{mod}.{attr}/" + ",".join(f"{n}={v!r}" for n, v in zip(names, vals)) + "/kwall"] = (mod, attr, len(req), tuple(names), tuple(vals), "kwall")
        # two cooperating non-default arguments (keyword form)
        for i in range(len(singles)):
            for j in range(i + 1, len(singles)):
                (n1, v1), (n2, v2) = singles[i], singles[j]
                out[f"CF2/{mod}.{attr}/{n1}={v1!r},{n2}={v2!r}/kw"] = (mod, attr, len(req), (n1, n2), (v1, v2), "kw2")
    _CF = out
    return out


def _valid_all_forms(orig, nreq, cands, limit=2, max_tries=48):
    import itertools

    import numpy as np

    arrs = [np.array([[0.5, -1.5, 2.0], [1.0, 0.25, -3.0]], dtype=np.float32) * (i + 1) for i in range(nreq)]
    try:
        base = orig(*arrs)
        base_leaves = [np.asarray(x) for x in (base if isinstance(base, (tuple, list)) else [base])]
    except Exception:
        return []
    names = [n for n, _ in cands]
    good, weak = [], []
    for t, combo in enumerate(itertools.product(*[v for _, v in cands])):
        if t >= max_tries or len(good) >= limit:
            break
        try:
            r = orig(*arrs, **dict(zip(names, combo)))
            leaves = [np.asarray(x) for x in (r if isinstance(r, (tuple, list)) else [r])]
        except Exception:
            continue
        differs = len(leaves) != len(base_leaves) or any(a.shape != b.shape or not np.array_equal(a, b, equal_nan=True) for a, b in zip(leaves, base_leaves))
        (good if differs else weak).append((names, combo))
    return (good + weak)[:limit]


def _materialise(v):
    import numpy as np

    if isinstance(v, tuple) and len(v) == 2 and v[0] == "NPINT":
        return np.int64(v[1])
    if isinstance(v, tuple) and len(v) == 2 and v[0] == "LIST":
        return [v[1]]
    if isinstance(v, tuple):
        return v
    if v == "ARRAY_F":
        return np.array([[0.5, 1.5, 2.0], [1.0, 0.25, 3.0]], dtype=np.float32)
    if v == "ARRAY_B":
        return np.array([[True, False, True], [True, True, False]])
    return v


def list_jobs(tier):
    ids = sorted(callforms())
    singles = [i for i in ids if i.startswith("CF/")]
    pairs = [i for i in ids if i.startswith("CF2/")]
    alls = [i for i in ids if i.startswith("CFA/")]
    if tier == "thorough":
        return ids
    typed = [i for i in singles if "np.int64(" in i or "=(" in i or "=[" in i]
    plain = [i for i in singles if i not in set(typed)]
    return plain[:: max(1, len(plain) // 260)] + typed + pairs[:: max(1, len(pairs) // 200)] + alls


def run_job(job, tier):
    import importlib

    import numpy as np

    from .. import pipeline

    mod, attr, nreq, pname, val, form = callforms()[job]
    m = importlib.import_module(mod)

    def fn(*arrays):
        f = getattr(m, attr)  # late binding: the converter substitutes the module attribute
        if form == "pos":
            return f(*arrays, _materialise(val))
        if form in ("kw2", "kwall"):
            return f(*arrays, **{n: _materialise(v) for n, v in zip(pname, val)})
        return f(*arrays, **{pname: _materialise(val)})

    prog = pipeline.Program(pid=job, fn=fn, specs=[((2, 3), np.dtype(np.float32))] * nreq)
    r = pipeline.analyze(prog, pipeline.Options(timeout_ms=3000 if tier == "quick" else 20000, max_queries=24))
    r["callform"] = {"target": f"{mod}.{attr}", "param": "+".join(pname) if isinstance(pname, tuple) else pname, "value": repr(val), "form": form}
    if r.get("status") == "export_failed":
        reason = r.get("reason") or ""
        low = reason.lower()
        explicit = reason.startswith("NotImplementedError") or "not supported" in low or "unsupported" in low or "not implemented" in low
        # JAX traced this very call without the converter's substitutes (the reference succeeded); a
        # TypeError / AttributeError / KeyError / IndexError out of the substitute is a rejected valid
        # call, unless the message says explicitly that the feature is unsupported
        binding_failure = not explicit and (
            reason.startswith(("TypeError", "AttributeError", "KeyError", "IndexError")) or (reason.startswith("ValueError") and "unpack" in reason)
        )
        if binding_failure:
            # JAX accepted the call (the reference trace succeeded) but the tracing-time substitute
            # cannot bind it and the error is not an explicit unsupported-feature message
            r["status"] = "violation"
            r["kind"] = "call_rejected"
            r["witness"] = {"why": f"valid call rejected while tracing: {reason[:200]}"}
    return r


def main(tier):
    t0 = time.time()
    specs, errors = collect_specs()
    stats = {k: 0 for k in ("solver_s", "queries", "unsat", "sat", "unknown", "replayed", "spurious", "no_signature", "iteration_bound_hit")}
    violations = []
    samples = []
    callable_specs = 0
    generic = 0
    for spec in specs:
        if not callable(spec["orig"]) or not callable(spec["sub"]):
            continue
        callable_specs += 1
        ss = sig_of(spec["sub"])
        if ss is not None:
            kinds = [p.kind for p in ss.parameters.values()]
            if P.VAR_POSITIONAL in kinds and P.VAR_KEYWORD in kinds and len(kinds) <= 3:
                generic += 1
        for sp, so, ssig, fd in analyse_spec(spec, stats):
            tn = target_name(sp["target"])
            key = f"{tn}.{sp['attr']}|param:{fd['param']}"
            call = f"npos={fd['npos']} keywords={fd['keywords']}"
            violations.append({"key": key, "what": f"original {so} accepts call form [{call}], substitute {ssig} raises TypeError", "payload": {"owner": sp["owner"], "target": tn, "attr": sp["attr"], "original_signature": str(so), "substitute_signature": str(ssig), **fd}})
            if len(samples) < 3:
                samples.append({"spec": f"{tn}.{sp['attr']}", "original": str(so), "substitute": str(ssig), "witness_call_form": call})
    tw = twin(stats)
    # part 2 through the sharded runner
    from .. import runner

    cf_results, crashed = runner.run_sharded("j2ov.checks.c19", tier)
    cf_counts = {}
    for r in cf_results:
        cf_counts[r.get("status")] = cf_counts.get(r.get("status"), 0) + 1
        if r.get("status") == "violation":
            cfm = r.get("callform") or {}
            w = r.get("witness") or {}
            cls = "call_rejected" if r.get("kind") == "call_rejected" else "ignored_or_misbound"
            vr = str(cfm.get("value"))
            vkind = "npint" if "NPINT" in vr else ("list" if "LIST" in vr else ("tuple" if vr.startswith("(") and cfm.get("form") == "kw" else "plain"))
            key = f"{cfm.get('target')}|{cls}:{cfm.get('param')}" + (f"[{vkind}]" if vkind != "plain" else "") + f"|{cfm.get('form')}"
            m = re.search(r"unexpected keyword argument '(\w+)'", str(w.get("why")))
            if cls == "call_rejected" and m:
                # the same call-site defect part 1 reports from the signatures (one key per parameter)
                key = f"{cfm.get('target')}|param:{m.group(1)}"
            violations.append({"key": key, "what": f"{cfm.get('target')}({cfm.get('param')}={cfm.get('value')} passed {cfm.get('form')}): {w.get('why') or 'exported model differs from JAX'}: inputs={str(w.get('inputs'))[:80]} jax={str(w.get('jax'))[:70]} ort={str(w.get('ort', w.get('ort_error')))[:70]}", "payload": {"job": r["job"], "witness": w}})
    if not samples:
        samples.append({"note": "no sat query"})
    cov = {
        "explanation": "z3 decides accepts(original) & ~accepts(substitute) over a symbolic call form (number of positional arguments, one Bool per keyword in the union of parameter names, one fresh keyword) for every callable binding spec; witnesses are minimised (z3 Optimize), one per offending parameter, and replayed with inspect.Signature.bind on the live objects.",
        "obligations": stats["queries"],
        "discharged": stats["unsat"],
        "samples": samples,
        "binding_specs": len(specs),
        "callable_specs": callable_specs,
        "generic_star_args_substitutes": generic,
        "queries": {k: (round(v, 2) if isinstance(v, float) else v) for k, v in stats.items()},
        "solver_s": round(stats["solver_s"], 2),
        "collection_errors": errors[:30],
        "twin_refuted": tw,
        "callforms": {"enumerated": len(callforms()), "run": len(cf_results), "verdicts": cf_counts, "worker_crashes": crashed, "rule": "raises (export_failed) or proved equivalent; a value difference = an argument ignored or mis-bound"},
        "bounds": {"positional_count": "0..N+1 (N = max positional parameters of the pair)", "keywords": "every subset of the union of parameter names + one fresh name", "values": "not modelled (argument values are irrelevant to binding)", "library_versions": "installed only"},
        "functions_encoded": ["PrimitiveLeafPlugin.binding_specs (all plugins)", "MonkeyPatchSpec.make_value(orig)", "FunctionPlugin patches via _iter_patch_specs", "inspect.signature of original and substitute"],
    }
    assumptions = [
        "Python's binding rules as documented (positional-only, positional-or-keyword, *args, keyword-only, **kwargs, defaults)",
        "a leading self/cls of a patched method is always passed positionally",
        "substitutes with a generic (*args, **kwargs) signature accept every form here; whether they then ignore an argument is not decided by this part",
    ]
    rc = common.finish(PROP, tier, t0, level="other", coverage=cov, assumptions=assumptions, violations=violations, decided=stats["unsat"] + stats["replayed"])
    if not tw and rc == 0:
        print("HARNESS-ERROR property=C19 twin not refuted")
        return 2
    return rc


if __name__ == "__main__":
    sys.exit(main(common.tier_from_env(sys.argv[1] if len(sys.argv) > 1 else None)))
