"""C05 - the model interface mirrors the callable's signature (partial).

1. positional-name languages (z3 strings/regex): the live `_POSITIONAL_INPUT_NAME_RE` is parsed
   with re._parser into a z3 regular expression; the nested closure `_should_always_keep` of
   `prune_unused_graph_inputs_ir` is translated from its live AST into a z3 predicate; z3 decides
   forall s. matches_positional(s) => always_keep(s), and that both contain the binder's names.
   Witnesses are replayed through to_onnx (an unused positional input with that name must survive).
2. custom IO naming (CrossHair): the real `_apply_custom_io_names_on_ir` on small onnx_ir graphs
   with requested names as symbolic indices into an equality-complete pool.
3. declared interface vs jax.eval_shape on exported programs (side conditions, direct evaluation).
"""
from __future__ import annotations

import ast
import inspect
import os
import re
import sys
import textwrap
import time

import numpy as np
import z3

from .. import corpus, families, pipeline, runner
from . import common, c01

PROP = "C05"
JOB_TIMEOUT_S = {"quick": 120, "thorough": 600}
MAXLEN = 12


class Unsupported(Exception):
    pass


# --------------------------------------------------------------------------- regex -> z3

def regex_to_z3(pattern: str):
    import re._parser as sp
    import re._constants as sc

    tree = sp.parse(pattern)

    def conv_seq(items):
        parts = [conv(op, av) for op, av in items]
        parts = [p for p in parts if p is not None]
        if not parts:
            return z3.Re("")
        r = parts[0]
        for p in parts[1:]:
            r = z3.Concat(r, p)
        return r

    def conv_in(av):
        alts = []
        for op, v in av:
            if op is sc.LITERAL:
                alts.append(z3.Re(chr(v)))
            elif op is sc.RANGE:
                alts.append(z3.Range(chr(v[0]), chr(v[1])))
            elif op is sc.CATEGORY:
                if v is sc.CATEGORY_DIGIT:
                    alts.append(z3.Range("0", "9"))  # ASCII alphabet bound
                else:
                    raise Unsupported(f"category {v}")
            else:
                raise Unsupported(f"set item {op}")
        r = alts[0]
        for a in alts[1:]:
            r = z3.Union(r, a)
        return r

    def conv(op, av):
        if op is sc.LITERAL:
            return z3.Re(chr(av))
        if op is sc.AT:
            return None  # anchors: fullmatch semantics are used by the caller
        if op is sc.IN:
            return conv_in(av)
        if op is sc.SUBPATTERN:
            return conv_seq(av[3])
        if op is sc.MAX_REPEAT or op is sc.MIN_REPEAT:
            lo, hi, sub = av
            r = conv_seq(sub)
            if lo == 0 and hi == 1:
                return z3.Option(r)
            if lo == 0 and hi is sc.MAXREPEAT:
                return z3.Star(r)
            if lo == 1 and hi is sc.MAXREPEAT:
                return z3.Plus(r)
            return z3.Loop(r, lo, hi if hi is not sc.MAXREPEAT else 0)
        if op is sc.BRANCH:
            alts = [conv_seq(a) for a in av[1]]
            r = alts[0]
            for a in alts[1:]:
                r = z3.Union(r, a)
            return r
        if op is sc.CATEGORY and av is sc.CATEGORY_DIGIT:
            return z3.Range("0", "9")
        raise Unsupported(f"regex op {op}")

    return conv_seq(list(tree))


# --------------------------------------------------------------------------- AST -> z3 (string predicate)

DIGITS = z3.Plus(z3.Range("0", "9"))


class SymPy:
    """Tiny symbolic interpreter for a str -> bool Python function over z3 strings."""

    def __init__(self, fn_node: ast.FunctionDef, arg):
        self.fn = fn_node
        self.arg = arg

    def run(self):
        env = {self.fn.args.args[0].arg: ("str", self.arg)}
        res, _, _ = self.block(self.fn.body, env, z3.BoolVal(True))
        # res: list of (path condition, bool term); falling off the end returns None (falsy)
        out = z3.BoolVal(False)
        for pc, val in reversed(res):
            out = z3.If(pc, val, out)
        return out

    def merge(self, c, a, b):
        """value-level ite for environment merging after an if"""
        if a is b:
            return a
        if a[0] != b[0]:
            raise Unsupported("branches assign different kinds")
        if a[0] == "none":
            return a
        return (a[0], z3.If(c, a[1], b[1]))

    def block(self, stmts, env, pc):
        """-> (returns [(pc, bool term)], env after the block, dead: every path returned)"""
        results = []
        live = pc
        env = dict(env)
        for st in stmts:
            if isinstance(st, ast.Return):
                results.append((live, self.truth(self.expr(st.value, env)) if st.value is not None else z3.BoolVal(False)))
                return results, env, True
            if isinstance(st, ast.Expr) and isinstance(st.value, ast.Constant):
                continue  # docstring
            if isinstance(st, ast.Assign) and len(st.targets) == 1 and isinstance(st.targets[0], ast.Name):
                env[st.targets[0].id] = self.expr(st.value, env)
                continue
            if isinstance(st, ast.If):
                c = self.truth(self.expr(st.test, env))
                r1, e1, d1 = self.block(st.body, env, z3.And(live, c))
                r2, e2, d2 = self.block(st.orelse, env, z3.And(live, z3.Not(c))) if st.orelse else ([], dict(env), False)
                results += r1 + r2
                if d1 and d2:
                    return results, env, True
                if d1:
                    live, env = z3.And(live, z3.Not(c)), e2
                elif d2:
                    live, env = z3.And(live, c), e1
                else:
                    merged = {}
                    for k in set(e1) | set(e2):
                        if k in e1 and k in e2:
                            merged[k] = self.merge(c, e1[k], e2[k])
                    env = merged
                continue
            raise Unsupported(f"statement {type(st).__name__}")
        return results, env, False

    def truth(self, v):
        kind, t = v
        if kind == "bool":
            return t
        if kind == "str":
            return z3.Length(t) > 0
        if kind == "none":
            return z3.BoolVal(False)
        if kind == "int":
            return t != 0
        raise Unsupported(f"truth of {kind}")

    def expr(self, e, env):
        if isinstance(e, ast.Name):
            if e.id in env:
                return env[e.id]
            raise Unsupported(f"free name {e.id}")
        if isinstance(e, ast.Constant):
            if isinstance(e.value, bool):
                return ("bool", z3.BoolVal(e.value))
            if isinstance(e.value, str):
                return ("str", z3.StringVal(e.value))
            if isinstance(e.value, int):
                return ("int", z3.IntVal(e.value))
            if e.value is None:
                return ("none", None)
        if isinstance(e, ast.UnaryOp) and isinstance(e.op, ast.USub):
            k, v = self.expr(e.operand, env)
            if k != "int":
                raise Unsupported("negation of non-int")
            return ("int", -v)
        if isinstance(e, ast.UnaryOp) and isinstance(e.op, ast.Not):
            return ("bool", z3.Not(self.truth(self.expr(e.operand, env))))
        if isinstance(e, ast.BoolOp):
            vals = [self.truth(self.expr(v, env)) for v in e.values]
            return ("bool", z3.And(*vals) if isinstance(e.op, ast.And) else z3.Or(*vals))
        if isinstance(e, ast.Compare) and len(e.ops) == 1:
            l, r = self.expr(e.left, env), self.expr(e.comparators[0], env)
            op = e.ops[0]
            if isinstance(op, (ast.Eq, ast.NotEq)) and l[0] == r[0] and l[0] in ("str", "int"):
                t = l[1] == r[1]
                return ("bool", t if isinstance(op, ast.Eq) else z3.Not(t))
            if isinstance(op, (ast.Is, ast.IsNot)) and r[0] == "none":
                isn = z3.BoolVal(l[0] == "none")
                return ("bool", isn if isinstance(op, ast.Is) else z3.Not(isn))
            if l[0] == r[0] == "int":
                f = {ast.Lt: lambda a, b: a < b, ast.LtE: lambda a, b: a <= b, ast.Gt: lambda a, b: a > b, ast.GtE: lambda a, b: a >= b}.get(type(op))
                if f:
                    return ("bool", f(l[1], r[1]))
            raise Unsupported("compare")
        if isinstance(e, ast.Subscript) and isinstance(e.slice, ast.Slice):
            kind, s = self.expr(e.value, env)
            if kind != "str" or e.slice.step is not None:
                raise Unsupported("slice")
            n = z3.Length(s)

            def bound(b, default):
                if b is None:
                    return default
                k, v = self.expr(b, env)
                if k != "int":
                    raise Unsupported("slice bound")
                v = z3.If(v < 0, z3.If(n + v < 0, z3.IntVal(0), n + v), z3.If(v > n, n, v))
                return v

            lo, hi = bound(e.slice.lower, z3.IntVal(0)), bound(e.slice.upper, n)
            return ("str", z3.SubString(s, lo, z3.If(hi - lo < 0, z3.IntVal(0), hi - lo)))
        if isinstance(e, ast.Call):
            if isinstance(e.func, ast.Name) and e.func.id == "len" and len(e.args) == 1:
                k, s = self.expr(e.args[0], env)
                return ("int", z3.Length(s))
            if isinstance(e.func, ast.Name) and e.func.id == "bool" and len(e.args) == 1:
                return ("bool", self.truth(self.expr(e.args[0], env)))
            if isinstance(e.func, ast.Attribute):
                k, s = self.expr(e.func.value, env)
                m = e.func.attr
                args = [self.expr(a, env) for a in e.args]
                if k == "str":
                    if m == "startswith" and args and args[0][0] == "str":
                        return ("bool", z3.PrefixOf(args[0][1], s))
                    if m == "endswith" and args and args[0][0] == "str":
                        return ("bool", z3.SuffixOf(args[0][1], s))
                    if m == "isdigit" and not args:
                        return ("bool", z3.InRe(s, DIGITS))
                    if m == "removesuffix" and args:
                        a = args[0][1]
                        return ("str", z3.If(z3.SuffixOf(a, s), z3.SubString(s, 0, z3.Length(s) - z3.Length(a)), s))
                    if m == "removeprefix" and args:
                        a = args[0][1]
                        return ("str", z3.If(z3.PrefixOf(a, s), z3.SubString(s, z3.Length(a), z3.Length(s) - z3.Length(a)), s))
                    if m == "strip" and not args:
                        raise Unsupported("strip")
                # compiled regex object from the module namespace: <NAME>.fullmatch(s)
                if m in ("fullmatch", "match") and isinstance(e.func.value, ast.Name):
                    pass
            raise Unsupported(f"call {ast.dump(e)[:80]}")
        raise Unsupported(f"expression {type(e).__name__}")


def extract_keep_closure():
    import jax2onnx.converter.ir_optimizations as iro

    src = textwrap.dedent(inspect.getsource(iro.prune_unused_graph_inputs_ir))
    tree = ast.parse(src)
    for node in ast.walk(tree):
        if isinstance(node, ast.FunctionDef) and node.name == "_should_always_keep":
            return node
    raise Unsupported("closure _should_always_keep not found in prune_unused_graph_inputs_ir")


def compile_closure(node):
    mod = ast.Module(body=[node], type_ignores=[])
    ns = {"Optional": object, "re": re}
    import jax2onnx.converter.ir_optimizations as iro

    ns.update({k: v for k, v in vars(iro).items() if not k.startswith("__")})
    exec(compile(ast.fix_missing_locations(mod), "<live closure>", "exec"), ns)
    return ns[node.name]


def ascii_printable(s):
    # restrict the alphabet to printable ASCII (stated bound)
    return z3.InRe(s, z3.Star(z3.Range(" ", "~")))


def name_languages(out):
    import jax2onnx.user_interface as ui

    pat = ui._POSITIONAL_INPUT_NAME_RE.pattern
    L_pos = regex_to_z3(pat)
    node = extract_keep_closure()
    keep_fn = compile_closure(node)
    s = z3.String("s")
    keep = SymPy(node, s).run()
    base = [ascii_printable(s), z3.Length(s) <= MAXLEN]
    queries = []
    violations = []

    def solve(label, extra, timeout=20000):
        sol = z3.Solver()
        sol.set("timeout", timeout)
        sol.add(*base, *extra)
        t0 = time.time()
        r = str(sol.check())
        queries.append({"query": label, "verdict": r, "solver_s": round(time.time() - t0, 3)})
        return r, (sol.model() if r == "sat" else None)

    # (a) every positional name is always kept
    r, m = solve("exists s. positional_re(s) and not always_keep(s)", [z3.InRe(s, L_pos), z3.Not(keep)])
    if r == "sat":
        w = m.eval(s).as_string()
        real = bool(ui._POSITIONAL_INPUT_NAME_RE.fullmatch(w)) and not keep_fn(w)
        if real:
            api = replay_unused_input(w)
            if api["pruned"]:
                violations.append({"key": "positional_name_not_kept|" + re.sub(r"\d+", "<i>", w), "what": f"name {w!r} matches the positional pattern but _should_always_keep rejects it; to_onnx dropped the unused positional input ({api['detail']})", "payload": {"witness": w, **api}})
            else:
                out["inconclusive"].append(f"witness {w!r} not reproduced through to_onnx: {api['detail']}")
        else:
            out["inconclusive"].append(f"spurious witness {w!r} (encoding vs live functions disagree)")
    elif r != "unsat":
        out["inconclusive"].append("language inclusion: solver unknown")
    # (b) the binder's names are in the positional language
    d = z3.String("d")
    for suffix in ("", "_nchw"):
        r2, m2 = solve(f"exists digits d. 'in_'+d+'{suffix}' not in positional_re", [s == z3.Concat(z3.StringVal("in_"), d, z3.StringVal(suffix)), z3.InRe(d, DIGITS), z3.Not(z3.InRe(s, L_pos))])
        if r2 == "sat":
            violations.append({"key": f"binder_name_not_positional|in_<i>{suffix}", "what": f"binder name {m2.eval(s)} is not matched by _POSITIONAL_INPUT_NAME_RE", "payload": {}})
        elif r2 != "unsat":
            out["inconclusive"].append("binder names: unknown")
    # twins: the predicate is not trivially true / the language is not empty
    t1, _ = solve("twin: exists s. not always_keep(s)", [z3.Not(keep), z3.Length(s) > 0])
    t2, _ = solve("twin: exists s. positional_re(s)", [z3.InRe(s, L_pos)])
    out["twins_ok"] = (t1 == "sat" and t2 == "sat")
    # translator self-validation: encoding vs live functions on concrete names
    bad = []
    for w in ["", "in_0", "in_12", "in_0_nchw", "in_", "in_x", "out_0", "in_0_nhwc", "x", "in_1_nchw_", "in_٣", "IN_0", " in_0", "in_00"]:
        if not all(" " <= ch <= "~" for ch in w):
            continue
        sol = z3.Solver()
        sol.add(s == z3.StringVal(w))
        sol.check()
        mm = sol.model()
        enc_keep = z3.is_true(mm.eval(keep, model_completion=True))
        enc_pos = z3.is_true(z3.simplify(z3.InRe(z3.StringVal(w), L_pos)))
        if enc_keep != bool(keep_fn(w if w else None) if w == "" else keep_fn(w)):
            bad.append(("keep", w))
        if enc_pos != bool(ui._POSITIONAL_INPUT_NAME_RE.fullmatch(w)):
            bad.append(("pos", w))
    out["self_validation_mismatches"] = bad
    out["queries"] = queries
    out["pattern"] = pat
    return violations


RESOLVE_HARNESS = '''
"""CrossHair harness generated by j2ov.checks.c05: real _resolve_positional_inputs on stub graphs."""
import jax2onnx.user_interface as UI


class _V:
    def __init__(self, name):
        self.name = name


class _G:
    def __init__(self, inputs):
        self.inputs = inputs


def _names(n, nchw_mask, param_pos):
    names = []
    for i in range(n):
        names.append("in_%d_nchw" % i if (nchw_mask >> i) & 1 else "in_%d" % i)
    if 0 <= param_pos <= n:
        names.insert(param_pos, "deterministic")
    return names


def resolve_in_index_order(n: int, nchw_mask: int, param_pos: int) -> bool:
    """
    pre: 0 <= n <= 12 and 0 <= nchw_mask < 2 and -1 <= param_pos <= 1
    post: _
    """
    names = _names(n, nchw_mask, param_pos)
    g = _G([_V(x) for x in names])
    try:
        got = UI._resolve_positional_inputs(g, n)
    except ValueError:
        return False  # all n positional inputs are present: resolution must succeed
    want = [x for x in names if x != "deterministic"]
    return [v.name for v in got] == want


def twin_reaches_two_digit_names(n: int) -> bool:
    """
    pre: 0 <= n <= 13
    post: _
    """
    g = _G([_V("in_%d" % i) for i in range(n)])
    return len(UI._resolve_positional_inputs(g, n)) < 11  # must be refuted (n >= 11 reachable)
'''


def resolve_kernel(tier, out):
    from ..crosshair_util import run_conditions
    import importlib.util

    os.makedirs("/verif/.work", exist_ok=True)
    path = f"/verif/.work/c05_resolve_{os.getpid()}.py"
    open(path, "w").write(RESOLVE_HARNESS)
    res = run_conditions(path, ["resolve_in_index_order", "twin_reaches_two_digit_names"], 90 if tier == "quick" else 400)
    out["resolve_kernel"] = {k: {"verdict": v.get("verdict"), "wall_s": v.get("wall_s"), "message": v.get("message", "")[-200:]} for k, v in res.items()}
    violations = []
    r = res.get("resolve_in_index_order", {})
    if r.get("verdict") == "counterexample":
        from .c13 import parse_args

        args = parse_args(r.get("message", ""), "resolve_in_index_order")
        spec = importlib.util.spec_from_file_location("c05_resolve", path)
        mod = importlib.util.module_from_spec(spec)
        spec.loader.exec_module(mod)
        rep = None
        if args:
            try:
                rep = mod.resolve_in_index_order(*args) is False
            except Exception:
                rep = None
        if rep:
            violations.append({"key": "resolve_positional_inputs|order", "what": f"_resolve_positional_inputs does not return the positional inputs in index order for n={args[0]} (nchw mask {args[1]}, param at {args[2]})", "payload": {"args": args}})
        else:
            out["inconclusive"].append("resolve kernel: counterexample not reproduced")
    elif r.get("verdict") != "confirmed":
        out["inconclusive"].append(f"resolve kernel: {r.get('verdict')}")
    out["resolve_twin_ok"] = res.get("twin_reaches_two_digit_names", {}).get("verdict") == "counterexample"
    os.remove(path)
    return violations


def replay_unused_input(name):
    """Export a callable with an unused positional argument that the converter names `name`."""
    import jax.numpy as jnp
    from jax2onnx import to_onnx

    m = re.fullmatch(r"in_(\d+)(_nchw)?", name)
    if not m:
        return {"pruned": False, "detail": "name is not producible by the binder"}
    idx = int(m.group(1))
    nchw = bool(m.group(2))
    if idx > 3:
        idx = 1
    n = idx + 1

    def fn(*args):
        used = [a for i, a in enumerate(args) if i != idx]
        return (used[0] if used else jnp.zeros((1,))) * 2.0

    n = max(n, 2)
    specs = [(1, 2, 3, 4)] * n
    kw = {"inputs_as_nchw": [idx]} if nchw else {}
    try:
        model = to_onnx(fn, specs, **kw)
    except Exception as e:
        return {"pruned": False, "detail": f"export raised {type(e).__name__}: {str(e)[:100]}"}
    names = [i.name for i in model.graph.input]
    return {"pruned": len(names) != n, "detail": f"{n} positional arguments, model inputs {names}"}


# --------------------------------------------------------------------------- (2) custom naming under CrossHair

NAMING_HARNESS = '''
"""CrossHair harness generated by j2ov.checks.c05: real _apply_custom_io_names_on_ir."""
import numpy as np
import onnx_ir as ir
import jax2onnx.user_interface as UI

POOL = ["in_0", "in_1", "in_0_nchw", "out_0", "out_1", "mid", "w", "", " ", "alpha", "beta", "gamma", "delta"]


def _graph(variant: int):
    f32 = ir.TensorType(ir.DataType.FLOAT)
    a = ir.Value(name="in_0_nchw" if variant == 3 else "in_0", type=f32, shape=ir.Shape([2]))
    b = ir.Value(name="in_1", type=f32, shape=ir.Shape([2]))
    w = ir.Value(name="w", type=f32, shape=ir.Shape([2]), const_value=ir.tensor(np.ones(2, np.float32)))
    n1 = ir.Node("", "Add", [a, w], num_outputs=1)
    n1.outputs[0].name = "mid"
    if variant == 2:
        n2 = ir.Node("", "Relu", [n1.outputs[0]], num_outputs=1)  # in_1 unused
    else:
        n2 = ir.Node("", "Mul", [n1.outputs[0], b], num_outputs=1)
    n2.outputs[0].name = "out_0"
    n3 = ir.Node("", "Neg", [n1.outputs[0]], num_outputs=1)
    n3.outputs[0].name = "out_1"
    outs = [n2.outputs[0], n3.outputs[0]]
    if variant == 1:
        outs = [n2.outputs[0], a]  # an output that IS an input
    g = ir.Graph([a, b], outs, nodes=[n1, n2, n3], initializers=[w], name="g", opset_imports={"": 21})
    return ir.Model(g, ir_version=10)


def _check(variant: int, i0: int, i1: int, o0: int, o1: int, use_in: bool, use_out: bool) -> bool:
    model = _graph(variant)
    ins = [POOL[i0], POOL[i1]] if use_in else None
    outs = [POOL[o0], POOL[o1]] if use_out else None
    try:
        nin = UI._normalize_io_names(ins, kind="input_names")
        nout = UI._normalize_io_names(outs, kind="output_names")
        UI._apply_custom_io_names_on_ir(model, input_names=nin, output_names=nout, positional_input_count=2)
    except (ValueError, TypeError):
        return True
    g = model.graph
    if ins is not None and [v.name for v in g.inputs] != ins:
        return False
    if outs is not None and [v.name for v in g.outputs] != outs:
        return False
    names = [v.name for v in g.inputs] + [v.name for v in g.initializers.values()]
    for n in g:
        names += [o.name for o in n.outputs]
    # every top-graph value name is defined once (an output that is an input is the same value)
    return len(set(names)) == len(names)


def naming_plain(i0: int, i1: int, o0: int, o1: int, use_in: bool, use_out: bool) -> bool:
    """
    pre: 0 <= i0 < 13 and 0 <= i1 < 13 and 0 <= o0 < 13 and 0 <= o1 < 13
    post: _
    """
    return _check(0, i0, i1, o0, o1, use_in, use_out)


def naming_output_is_input(i0: int, i1: int, o0: int, o1: int, use_in: bool, use_out: bool) -> bool:
    """
    pre: 0 <= i0 < 13 and 0 <= i1 < 13 and 0 <= o0 < 13 and 0 <= o1 < 13
    post: _
    """
    return _check(1, i0, i1, o0, o1, use_in, use_out)


def naming_unused_input(i0: int, i1: int, o0: int, o1: int, use_in: bool, use_out: bool) -> bool:
    """
    pre: 0 <= i0 < 13 and 0 <= i1 < 13 and 0 <= o0 < 13 and 0 <= o1 < 13
    post: _
    """
    return _check(2, i0, i1, o0, o1, use_in, use_out)


def naming_nchw_input(i0: int, i1: int, o0: int, o1: int, use_in: bool, use_out: bool) -> bool:
    """
    pre: 0 <= i0 < 13 and 0 <= i1 < 13 and 0 <= o0 < 13 and 0 <= o1 < 13
    post: _
    """
    return _check(3, i0, i1, o0, o1, use_in, use_out)


def twin_some_request_succeeds(i0: int, i1: int) -> bool:
    """
    pre: 0 <= i0 < 13 and 0 <= i1 < 13
    post: _
    """
    model = _graph(0)
    try:
        UI._apply_custom_io_names_on_ir(model, input_names=[POOL[i0], POOL[i1]], output_names=None, positional_input_count=2)
    except (ValueError, TypeError):
        return True
    return False  # must be refuted: some renaming succeeds
'''
NAMING_CONDS = ["naming_plain", "naming_output_is_input", "naming_unused_input", "naming_nchw_input"]


def naming(tier, out):
    from ..crosshair_util import run_conditions

    os.makedirs("/verif/.work", exist_ok=True)
    path = f"/verif/.work/c05_naming_{os.getpid()}.py"
    open(path, "w").write(NAMING_HARNESS)
    res = run_conditions(path, NAMING_CONDS + ["twin_some_request_succeeds"], 60 if tier == "quick" else 400)
    violations = []
    import importlib.util

    spec = importlib.util.spec_from_file_location("c05_naming", path)
    mod = importlib.util.module_from_spec(spec)
    spec.loader.exec_module(mod)
    for name in NAMING_CONDS:
        r = res.get(name, {})
        if r.get("verdict") == "counterexample":
            from .c13 import parse_args

            args = parse_args(r.get("message", ""), name)
            rep = None
            if args:
                try:
                    rep = getattr(mod, name)(*args) is False
                except Exception:
                    rep = None
            if rep:
                req = {"inputs": [mod.POOL[args[0]], mod.POOL[args[1]]] if args[4] else None, "outputs": [mod.POOL[args[2]], mod.POOL[args[3]]] if args[5] else None}
                violations.append({"key": f"custom_names|{name}", "what": f"{name}: request {req} neither rejected nor applied exactly / names collide", "payload": {"args": args, "request": req, "crosshair": r.get("message", "")[-300:]}})
            else:
                out["inconclusive"].append(f"{name}: counterexample not reproduced")
        elif r.get("verdict") != "confirmed":
            out["inconclusive"].append(f"{name}: {r.get('verdict')}")
    out["naming"] = {k: {"verdict": v.get("verdict"), "wall_s": v.get("wall_s")} for k, v in res.items()}
    out["naming_twin_ok"] = res.get("twin_some_request_succeeds", {}).get("verdict") == "counterexample"
    os.remove(path)
    return violations


# --------------------------------------------------------------------------- (3) declared interface vs eval_shape

def list_jobs(tier):
    ids = families.ids("A4", tier) + families.ids("A8", tier)[:40] + families.ids("A1", tier)[::6] + [f"IF/{n}" for n in sorted(interface_programs())]
    if tier == "thorough":
        ids += corpus.registry_ids(include_f64=True)[::7]
    return ids


_IF = None


def interface_programs():
    global _IF
    if _IF is not None:
        return _IF
    import jax.numpy as jnp

    F32, I32, BOOL = np.float32, np.int32, np.bool_
    mk = lambda fn, specs, **kw: pipeline.Program(pid="", fn=fn, specs=[(tuple(s), np.dtype(d)) for s, d in specs], **kw)
    p = {}
    p["unused_second"] = mk(lambda x, y: x * 2.0, [((3,), F32), ((2,), F32)])
    p["unused_first"] = mk(lambda x, y: y + 1.0, [((3,), F32), ((2,), F32)])
    p["unused_middle_of_three"] = mk(lambda x, y, z: x + z, [((3,), F32), ((2, 2), I32), ((3,), F32)])
    p["all_unused_const_out"] = mk(lambda x: jnp.ones((2,), jnp.float32), [((3,), F32)])
    p["unused_nchw_flagged"] = mk(lambda x, y: x * 2.0, [((1, 2, 3, 4), F32), ((1, 2, 3, 4), F32)], config={"inputs_as_nchw": [1]})
    p["unused_nchw_flagged_first"] = mk(lambda x, y: y * 2.0, [((1, 2, 3, 4), F32), ((1, 2, 3, 4), F32)], config={"inputs_as_nchw": [0]})
    p["unused_with_input_names"] = mk(lambda x, y: x * 2.0, [((3,), F32), ((2,), F32)], config={"input_names": ["a", "b"]})
    p["unused_nchw_with_input_names"] = mk(lambda x, y: x * 2.0, [((1, 2, 3, 4), F32), ((1, 2, 3, 4), F32)], config={"inputs_as_nchw": [1], "input_names": ["a", "b"]})
    p["output_is_input"] = mk(lambda x, y: (x, x + y), [((3,), F32), ((3,), F32)])
    p["duplicated_output"] = mk(lambda x: (x * 2.0, x * 2.0), [((3,), F32)])
    p["same_value_twice"] = mk(lambda x: (lambda t: (t, t))(x + 1.0), [((3,), F32)])
    p["nested_pytree"] = mk(lambda x: {"a": x + 1.0, "b": (x * 2.0, [x - 1.0])}, [((3,), F32)])
    p["bool_and_int_outputs"] = mk(lambda x, i: (x > 0, i + 1, jnp.argmax(x)), [((3,), F32), ((3,), I32)])
    p["names_both"] = mk(lambda x, y: (x + y, x - y), [((3,), F32), ((3,), F32)], config={"input_names": ["lhs", "rhs"], "output_names": ["sum", "diff"]})
    p["names_output_is_input"] = mk(lambda x, y: (x, x + y), [((3,), F32), ((3,), F32)], config={"output_names": ["same", "sum"]})
    p["symbolic_names_kept"] = mk(lambda x, y: x.sum(axis=0) + y, [(("batch", 3), F32), ((3,), F32)])
    p["double_flag_int_input"] = mk(lambda x, i: x * i.astype(jnp.float32), [((3,), F32), ((3,), I32)], config={"enable_double_precision": True})
    p["twelve_inputs_named"] = mk(lambda *a: sum(x.sum() * (i + 1) for i, x in enumerate(a) if i != 5), [((i + 1, 2), F32) for i in range(12)], config={"input_names": [f"arg_{chr(97 + i)}" for i in range(12)], "output_names": ["total"]})
    p["eleven_inputs_unused_last"] = mk(lambda *a: a[0] + a[9].sum(), [((2,), F32)] * 11)
    p["twelve_inputs_plain"] = mk(lambda *a: a[10] * 2.0 + a[2].sum(), [((i + 1,), F32) for i in range(12)])
    p["scalar_inputs"] = mk(lambda a, b: a * b, [((), F32), ((), F32)])
    _IF = p
    return p


def run_job(job, tier):
    import jax

    try:
        if job.startswith("IF/"):
            prog = interface_programs()[job[3:]]
            prog.pid = job
        else:
            prog = c01.get_program(job)
    except corpus.OutOfBound as e:
        return {"job": job, "status": "out_of_bound"}
    x64 = prog.x64
    try:
        with pipeline.x64_mode(x64):
            shapes = prog.concrete_shapes()
            sds = [jax.ShapeDtypeStruct(s, pipeline.spec_dtype(dt, x64)) for s, (_, dt) in zip(shapes, prog.specs)]
            frozen = dict(prog.input_params)
            ref = jax.eval_shape(lambda *a: prog.fn(*a, **frozen), *sds)
            leaves = jax.tree_util.tree_leaves(ref)
    except Exception as e:
        return {"job": job, "status": "reference_failed", "reason": f"{type(e).__name__}: {str(e)[:150]}"}
    try:
        model = pipeline.export(prog)
    except Exception as e:
        return {"job": job, "status": "export_failed", "reason": f"{type(e).__name__}: {str(e)[:200]}"}
    problems = interface_problems(prog, model, leaves, shapes)
    if problems:
        # the interface of something ONNX Runtime refuses to load is undefined: that is C03's subject
        try:
            import onnxruntime as ort

            so = ort.SessionOptions()
            so.log_severity_level = 4
            ort.InferenceSession(model.SerializeToString(), so, providers=["CPUExecutionProvider"])
        except Exception as e:
            return {"job": job, "status": "unloadable_model", "reason": str(e)[:200]}
    return {"job": job, "status": "violation" if problems else "proved", "problems": problems, "inputs": [i.name for i in model.graph.input], "outputs": [o.name for o in model.graph.output]}


def _dims(vi):
    out = []
    for d in vi.type.tensor_type.shape.dim:
        out.append(int(d.dim_value) if d.HasField("dim_value") else (d.dim_param or None))
    return out


def interface_problems(prog, model, leaves, shapes):
    from ..onnx_sem import np_dtype_of

    probs = []
    init = {i.name for i in model.graph.initializer}
    gins = [g for g in model.graph.input if g.name not in init and g.name not in prog.input_params]
    if len(gins) != len(prog.specs):
        probs.append(f"input_count: {len(prog.specs)} positional arguments, model inputs {[g.name for g in gins]}")
        return probs
    in_nchw = set(prog.config.get("inputs_as_nchw") or ())
    out_nchw = set(prog.config.get("outputs_as_nchw") or ())
    names = prog.config.get("input_names")
    for i, (g, (shp, dt)) in enumerate(zip(gins, prog.specs)):
        want = list(shp)
        if i in in_nchw and len(want) == 4:
            want = [want[0], want[3], want[1], want[2]]
        got = _dims(g)
        if np.dtype(pipeline.spec_dtype(dt, prog.x64)).kind == "c":
            want = want + [2]  # documented representation of complex tensors: real pairs on a trailing axis
        if len(got) != len(want):
            probs.append(f"input {i} rank {len(got)} vs {len(want)}")
            continue
        for a, b in zip(got, want):
            if isinstance(b, int) and isinstance(a, int) and a != b:
                probs.append(f"input {i} static dim {a} vs {b}")
            if isinstance(b, str) and a != b:
                probs.append(f"input {i} symbol {a!r} vs user symbol {b!r}")
        mdt = np_dtype_of(g.type.tensor_type.elem_type)
        ed = pipeline.spec_dtype(dt, prog.x64)
        if not _dtype_ok(mdt, ed, prog.x64):
            probs.append(f"input {i} element type {mdt} vs {ed}")
        if names and g.name != names[i]:
            probs.append(f"input {i} name {g.name!r} vs requested {names[i]!r}")
    gouts = list(model.graph.output)
    if len(gouts) != len(leaves):
        probs.append(f"output_count: {len(leaves)} result leaves, model outputs {[o.name for o in gouts]}")
        return probs
    onames = prog.config.get("output_names")
    for i, (o, leaf) in enumerate(zip(gouts, leaves)):
        want = [int(d) for d in leaf.shape]
        if i in out_nchw and len(want) == 4:
            want = [want[0], want[3], want[1], want[2]]
        got = _dims(o)
        if np.dtype(leaf.dtype).kind == "c":
            want = want + [2]  # complex results come back as real pairs on a trailing axis
        if len(got) != len(want):
            probs.append(f"output {i} rank {len(got)} vs {len(want)}")
        else:
            sym_in = any(isinstance(d, str) for shp, _ in prog.specs for d in shp)
            for a, b in zip(got, want):
                if isinstance(a, int) and a != b and not sym_in:
                    probs.append(f"output {i} static dim {a} vs {b}")
        mdt = np_dtype_of(o.type.tensor_type.elem_type)
        if not _dtype_ok(mdt, np.dtype(leaf.dtype), prog.x64):
            probs.append(f"output {i} element type {mdt} vs JAX {leaf.dtype}")
        if onames and o.name != onames[i]:
            probs.append(f"output {i} name {o.name!r} vs requested {onames[i]!r}")
    all_names = [g.name for g in model.graph.input] + [o for n in model.graph.node for o in n.output if o] + [i.name for i in model.graph.initializer if i.name not in {g.name for g in model.graph.input}]
    if len(set(all_names)) != len(all_names):
        probs.append("duplicate value names in the top graph")
    return probs


def _dtype_ok(model_dt, jax_dt, x64):
    mk, jk = model_dt.kind, np.dtype(jax_dt).kind
    if jk == "b":
        return mk == "b"
    if jk in "iu":
        return mk in "iu" and (model_dt == np.dtype(jax_dt) or model_dt == np.dtype(np.int64))
    if jk == "f":
        if mk != "f":
            return False
        return True
    if jk == "c":
        return mk == "f"
    return False


def main(tier):
    t0 = time.time()
    import logging

    logging.disable(logging.WARNING)
    out = {"inconclusive": []}
    violations = []
    harness_err = None
    try:
        violations += name_languages(out)
    except Unsupported as e:
        harness_err = f"source no longer matches the extraction subset: {e}"
    try:
        violations += resolve_kernel(tier, out)
    except Exception as e:
        out["inconclusive"].append(f"resolve kernel harness: {type(e).__name__}: {e}")
    # part 2 (custom naming under CrossHair) is NOT run: CrossHair's isinstance interception fails
    # inside onnx_ir ("Protocols with non-method members don't support issubclass()"), so the real
    # _apply_custom_io_names_on_ir cannot be traced symbolically here.  Requested-name programs are
    # covered only by the enumerated side conditions of part 3.  (DESIGN.md, C05.)
    out["naming"] = "not applicable: CrossHair cannot trace through onnx_ir runtime-checkable Protocols"
    results, crashed = runner.run_sharded("j2ov.checks.c05", tier)
    n_ok = 0
    for r in results:
        if r.get("status") == "proved":
            n_ok += 1
        elif r.get("status") == "violation":
            for pb in r["problems"]:
                cls = re.sub(r"\d+", "#", pb.split(":")[0])[:60]
                violations.append({"key": f"interface|{common.base_pid(r['job'])}|{cls}", "what": f"{r['job']}: {pb}", "payload": {"job": r["job"], "problems": r["problems"], "inputs": r.get("inputs"), "outputs": r.get("outputs")}})
    q = out.get("queries", [])
    cov = {
        "explanation": "z3 (strings + regular expressions) decides inclusion of the positional-input name language (parsed from the live compiled regex) in the always-keep predicate (translated from the live AST of the nested closure) over ASCII strings of length <= 12, and membership of the binder's names; CrossHair runs the real custom-naming functions with requested names as symbolic indices into an equality-complete pool; declared input/output count, order, rank, static dims, element-type class, symbol names and requested names are compared with jax.eval_shape on exported programs.",
        "obligations": len(q),
        "discharged": sum(1 for x in q if x["verdict"] == "unsat"),
        "samples": q[:3] or [{"note": "no query"}],
        "queries": q,
        "naming": out.get("naming"),
        "resolve_positional_inputs_kernel": out.get("resolve_kernel"),
        "resolve_twin_ok": out.get("resolve_twin_ok"),
        "pattern": out.get("pattern"),
        "self_validation_mismatches": out.get("self_validation_mismatches"),
        "twins_ok": out.get("twins_ok"),
        "naming_twin_ok": out.get("naming_twin_ok"),
        "interface_programs_checked": n_ok + sum(1 for r in results if r.get("status") == "violation"),
        "interface_programs_ok": n_ok,
        "inconclusive": out["inconclusive"],
        "bounds": {"alphabet": "printable ASCII", "max_len": MAXLEN, "pool": 13, "graphs": 4},
        "worker_crashes": crashed,
    }
    assumptions = [
        "Python str.isdigit restricted to ASCII digits (alphabet bound); regex semantics of fullmatch",
        "the AST translator supports the statement/expression subset listed in SymPy; anything else is a harness error (exit 2), never a pass",
        "part 3 (declared interface vs eval_shape) is direct evaluation on enumerated programs, not a solver query",
    ]
    decided = cov["discharged"] + cov["interface_programs_checked"]
    rc = common.finish(PROP, tier, t0, level="other", coverage=cov, assumptions=assumptions, violations=violations, decided=decided)
    if harness_err and rc == 0:
        print(f"HARNESS-ERROR property=C05 {harness_err}")
        return 2
    if rc == 0 and (out.get("self_validation_mismatches") or out.get("twins_ok") is False):
        print(f"HARNESS-ERROR property=C05 encoding self-validation failed: {out.get('self_validation_mismatches')} twins={out.get('twins_ok')}")
        return 2
    return rc


if __name__ == "__main__":
    sys.exit(main(common.tier_from_env(sys.argv[1] if len(sys.argv) > 1 else None)))
