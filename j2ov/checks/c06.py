"""C06 - control flow preserved for every branch choice and trip count (E2 with If/Loop semantics)."""
import sys

from .. import corpus, families, pipeline
from . import common, e2check

PROP = "C06"
JOB_TIMEOUT_S = {"quick": 120, "thorough": 600}
CF = ("cond", "while_loop", "fori_loop", "scan", "switch", "select_n", "associative_scan", "cumsum", "cumprod", "cummax", "cummin", "cumlogsumexp")


def list_jobs(tier):
    ids = [i for i in corpus.registry_ids(include_f64=(tier == "thorough")) if any(f"/{c}/" in i for c in CF)]
    return families.ids("A5", tier) + ids


def options(tier):
    if tier == "thorough":
        return pipeline.Options(timeout_ms=30000, max_queries=128, unroll=8)
    return pipeline.Options(timeout_ms=3000, max_queries=48, unroll=4, max_unknown=1, budget_s=25.0)


EXTRA = [
    "data-dependent loops are unrolled K=4 (quick) / 8 (thorough) times on both sides under the unwinding assumption `not alive after K iterations`; longer runs are outside the claim",
    "a construct the converter rejects at export time (export_failed) satisfies the rejection half of the property and is counted, not claimed as equivalence",
]

run_job, main = e2check.make(PROP, "j2ov.checks.c06", list_jobs, options, EXTRA)

if __name__ == "__main__":
    sys.exit(main(common.tier_from_env(sys.argv[1] if len(sys.argv) > 1 else None)))
