"""Registry of claimed checks (single source for MANIFEST.json)."""

CHECKS = {
 "C01": dict(level="translation_validation", design="DESIGN 5/C01, 3",
   technique="translation validation: z3 per-output-element equivalence of symbolically executed ONNX model vs reference jaxpr",
   text="For every registered/generated program inside the operator vocabulary and element bound, the real to_onnx output (interpreted by onnx_sem) and the un-patched reference jaxpr (jax_sem) are executed on symbolic tensors and z3 decides, one query per output element, that no input makes them differ (ints/bools exactly, floats over the reals with shared uninterpreted transcendentals). Sat models are replayed on ONNX Runtime vs JAX before being reported. This decides the `inputs` quantifier for each enumerated program, which a test's single draw cannot.",
   note="Bounded: <=4096 input elements, <=48/256 distinct queries per program, loops unrolled 5/8 with unwinding assumption, named dims bound to 3. Real-arithmetic abstraction (rounding/overflow/NaN outside the claim); evaluators are my reading of the JAX and ONNX specs, self-validated per program against JAX/ORT; programs are enumerated."),
 "C02": dict(level="translation_validation", design="DESIGN 5/C02",
   technique="translation validation: z3 equivalence of ONNX graph before vs after the real optimizer passes",
   text="The real optimize_graph (thorough: every pass alone too) is run on ~2000 generated pattern neighbourhoods (transpose/reshape/cast/reduce/add-forest/CSE/swish/dropout/DCE patterns x which intermediates are graph outputs x fan-out x symbolic dims) and on the real pre-optimization graph of every encodable registered program; before and after are executed symbolically and z3 decides equality of every output element for all inputs; output count, dtype and shape are part of the comparison; an optimized model that no longer evaluates is a candidate. Candidates are replayed ORT(before) vs ORT(after).",
   note="Graphs are enumerated to <=8 nodes; symbolic dims by a binding lattice in value mode; Real/Int theories; unknown elementwise ops uninterpreted."),
 "C17": dict(level="other", design="DESIGN 5/C17",
   technique="z3 bit-vector/IEEE floating-point queries over the full value domain of every dtype pair accepted by the real decision function; CrossHair on the Range bounds kernel",
   text="The real _cast_roundtrip_is_value_preserving is evaluated on every pair of ir.DataType codes; for each accepted pair z3 searches the whole value domain (true bit widths, IEEE sorts incl. subnormals, signed zero, NaN as a class) for a value that does not survive T->U->T: unsat is a bounded proof for that pair. CrossHair symbolically executes the real _known_integer_value_bounds on Range(start,limit,delta) in a box; z3 proves the wrap identity behind _cast_roundtrip_known_values_fit; Cast->Cast graphs go through the real rewrite and are compared for all inputs.",
   note="Cast semantics = ONNX/numpy (RNE, truncation, wrap). CrossHair box: |start|,|limit| <= 40 (quick) / 2000 (thorough). Stubs for graph helpers inside the CrossHair harness."),
 "C18": dict(level="other", design="DESIGN 5/C18, 4",
   technique="forking symbolic execution of the real _run_allclose over a symbolic numpy shim; z3 decides path-condition & ~Spec per returning-True path",
   text="The real _run_allclose runs with numpy/onnxruntime/jax replaced by symbolic stand-ins; element values, rtol and atol are solver variables; every path returning a match must imply the specification (count, shapes, tolerance on uncast values). Counterexamples are replayed through the public allclose on a constant-output model.",
   note="<=2 outputs, rank<=2 (+2 NCHW cases), dtype classes bool/i32/i64/f32/f64, Real arithmetic for floats, no NaN/Inf/complex."),
 "C19": dict(level="other", design="DESIGN 5/C19",
   technique="z3 decision of signature inclusion over a symbolic call form for every binding spec; witnesses replayed with Signature.bind",
   text="For each of the ~500 binding specs the original and the installed substitute are read from the live objects; Python binding rules are encoded in z3 over (npos, keyword-set, fresh keyword); accepts(orig) & ~accepts(substitute) sat = a concrete valid call the tracing-time substitute rejects.",
   note="Decides argument binding only; whether a bound argument is then honoured or ignored is not decided by this part. Installed library versions only."),
}

for _k in ("C17", "C18", "C19"):
    CHECKS[_k]["engine"] = "E1"

NOT_APPLICABLE = {
    "C14": "nondeterminism originates in interpreter hashing/object addresses and process history, not in any input a solver can range over; deciding it means running processes under varied seeds (enumeration of concrete runs), which is outside this technique family",
    "C15": "behaviour lives in protobuf/onnx C-extension serialisation and the filesystem (external-data spill, sidecar cleanup); symbolic execution stops at those boundaries and the remaining logic has a four-bit state",
}

for _i in range(1, 20):
    _p = f"C{_i:02d}"
    if _p not in CHECKS and _p not in NOT_APPLICABLE:
        NOT_APPLICABLE[_p] = "no check registered yet (under construction); no claim is made for this property at this commit"
