"""Registry of claimed checks (single source for MANIFEST.json)."""

CHECKS = {
 "C01": dict(level="translation_validation", design="DESIGN 5/C01, 3",
   technique="translation validation: z3 per-output-element equivalence of symbolically executed ONNX model vs reference jaxpr",
   text="For every registered/generated program inside the operator vocabulary and element bound, the real to_onnx output (interpreted by onnx_sem) and the un-patched reference jaxpr (jax_sem) are executed on symbolic tensors and z3 decides, one query per output element, that no input makes them differ (ints/bools exactly, floats over the reals with shared uninterpreted transcendentals). Sat models are replayed on ONNX Runtime vs JAX before being reported. This decides the `inputs` quantifier for each enumerated program, which a test's single draw cannot.",
   note="Bounded: <=4096 input elements, <=48/256 distinct queries per program, loops unrolled 5/8 with unwinding assumption, named dims bound to 3. Real-arithmetic abstraction (rounding/overflow/NaN outside the claim); evaluators are my reading of the JAX and ONNX specs, self-validated per program against JAX/ORT; programs are enumerated."),
 "C02": dict(level="translation_validation", design="DESIGN 5/C02",
   technique="translation validation: z3 equivalence of ONNX graph before vs after the real optimizer passes",
   text="The real optimize_graph (thorough: every pass alone too) is run on ~2000 generated pattern neighbourhoods (transpose/reshape/cast/reduce/add-forest/CSE/swish/dropout/DCE patterns x which intermediates are graph outputs x fan-out x symbolic dims) and on the real pre-optimization graph of every encodable registered program; before and after are executed symbolically and z3 decides equality of every output element for all inputs; output count, dtype and shape are part of the comparison; an optimized model that no longer evaluates is a candidate. Candidates are replayed ORT(before) vs ORT(after).",
   note="Graphs are enumerated to <=8 nodes; symbolic dims by a binding lattice in value mode; Real/Int theories; unknown elementwise ops uninterpreted."),
 "C17": dict(level="other", design="DESIGN 5/C17",
   technique="z3 bit-vector/IEEE floating-point queries over the full value domain of every dtype pair accepted by the real decision function; CrossHair on the Range bounds kernel",
   text="The real _cast_roundtrip_is_value_preserving is evaluated on every pair of ir.DataType codes; for each accepted pair z3 searches the whole value domain (true bit widths, IEEE sorts incl. subnormals, signed zero, NaN as a class) for a value that does not survive T->U->T: unsat is a bounded proof for that pair. CrossHair symbolically executes the real _known_integer_value_bounds on Range(start,limit,delta) in a box; z3 proves the wrap identity behind _cast_roundtrip_known_values_fit; Cast->Cast graphs go through the real rewrite and are compared for all inputs.",
   note="Cast semantics = ONNX/numpy (RNE, truncation, wrap). CrossHair box: |start|,|limit| <= 40 (quick) / 2000 (thorough). Stubs for graph helpers inside the CrossHair harness."),
 "C18": dict(level="other", design="DESIGN 5/C18, 4",
   technique="forking symbolic execution of the real _run_allclose over a symbolic numpy shim; z3 decides path-condition & ~Spec per returning-True path",
   text="The real _run_allclose runs with numpy/onnxruntime/jax replaced by symbolic stand-ins; element values, rtol and atol are solver variables; every path returning a match must imply the specification (count, shapes, tolerance on uncast values). Counterexamples are replayed through the public allclose on a constant-output model.",
   note="<=2 outputs, rank<=2 (+2 NCHW cases), dtype classes bool/i32/i64/f32/f64, Real arithmetic for floats, no NaN/Inf/complex."),
 "C19": dict(level="other", design="DESIGN 5/C19",
   technique="z3 decision of signature inclusion over a symbolic call form for every binding spec; witnesses replayed with Signature.bind",
   text="For each of the ~500 binding specs the original and the installed substitute are read from the live objects; Python binding rules are encoded in z3 over (npos, keyword-set, fresh keyword); accepts(orig) & ~accepts(substitute) sat = a concrete valid call the tracing-time substitute rejects.",
   note="Part 1 decides argument binding only. Part 2 runs call forms through the C01 query (export raises, or the model is proved equivalent): one non-default optional argument (positional and keyword), pairs, and ALL optional arguments non-default at once with the combination validated by calling the un-patched library function; an argument silently ignored or re-bound is a value/shape difference. Installed library versions only."),
}

CHECKS.update({
 "C04": dict(level="translation_validation", design="DESIGN 5/C04, 3.3",
   technique="translation validation: z3 per-element equivalence of the symbolic-shape export evaluated at each point of a binding lattice",
   text="Programs exported with named dimensions (registry _dynamic testcases and a generated family with dimension arithmetic: products, sums, floor division, modulo, slicing/arange by dims, reshape round trips) are evaluated symbolically with the symbols bound to each lattice point (1, equal, unequal, primes) and compared for all element values with the JAX callable traced at that size. Shape arithmetic nodes (Shape/Gather/Mul/Add/Div/Mod...) run inside the ONNX evaluator with exact integer semantics.",
   note="The `all bindings` quantifier is decided for lattice points only (quick 5, thorough 10 bindings); element values are universally quantified by the solver. Same abstractions as C01."),
 "C06": dict(level="translation_validation", design="DESIGN 5/C06",
   technique="translation validation with If/Loop semantics: z3 chooses predicate values and trip counts (bounded unrolling with unwinding assumption)",
   text="cond/switch/while_loop/fori_loop/scan programs whose predicates, bounds and data are model inputs are executed symbolically on both sides: If becomes ite over the symbolic predicate, data-dependent Loop/while are unrolled K times with alive-guards and the unwinding assumption on both sides, scans of length 0..3 exactly. z3 decides equality of carried values and stacked outputs for every input, i.e. for every branch choice and trip count within K.",
   note="K=4 quick / 8 thorough; scan length <= 64; state tensors small. Export-time rejection (reverse scan, 3-way switch, dynamic fori) is accepted as the rejection half."),
 "C07": dict(level="translation_validation", design="DESIGN 5/C07",
   technique="translation validation with FunctionProto inlining; call-site pairs differing in one attribute make wrong sharing a satisfiable difference",
   text="Programs with @onnx_function boundaries (plain functions, nnx modules, unique=True, nested, input_params) and pairs of call sites that differ in exactly one of weights / static float / static str / kwarg / shape / dtype / instance, in both call orders, are exported; call nodes are interpreted by inlining the function body; z3 decides equivalence with JAX for all inputs. Arity mismatches and undefined callees make the model invalid and are reported.",
   note="Enumerated placements; hash collisions of captured bytes and id() reuse are outside the claim."),
 "C10": dict(level="translation_validation", design="DESIGN 5/C10",
   technique="translation validation of T(f) for T in vmap/jit/grad/jvp/vjp/checkpoint/custom_jvp/custom_vjp against the un-patched jaxpr of T(f)",
   text="For ~40 base callables and 13 transformations the transformed function is exported (so the substitute primitives' batching/differentiation rules run) and compared for all inputs with the jaxpr JAX produces for T(f) without converter patches (JAX's own rules are the oracle).",
   note="vmap axis size 2, 3 input elements; Real-arithmetic abstraction."),
 "C12": dict(level="translation_validation", design="DESIGN 5/C12",
   technique="translation validation under layout flags: z3 equivalence of flagged export fed the NCHW permutation vs permuted JAX result; CrossHair on _validate_layout_indices",
   text="For conv-free 4-D programs and every subset of flagged inputs/outputs (dims 2,3,4,5 pairwise distinct so a wrong permutation cannot hide) the flagged model evaluated on P.x must equal P.(reference) for all x; non-flagged IO identical. CrossHair symbolically executes the real _validate_layout_indices: returns exactly the input iff entries are distinct in-range ints, rejects bools.",
   note="<=2 inputs/outputs; Conv outside the bound unless tiny."),
 "C16": dict(level="translation_validation", design="DESIGN 5/C16",
   technique="fault injection at every optimizer pass boundary + translation validation (z3) of the returned model; `raises or proved equivalent` for unsupported constructs",
   text="For every pass index k the real optimize_graph runs with pass k raising (entry k of _OPTIMIZER_PASSES replaced); under the default policy the returned, partially optimized model must be equivalent to the callable for all inputs (C01 query); under the strict setting the exception must propagate. Unsupported constructs (unregistered primitive, 3-way switch, reverse scan, dynamic fori bounds, dim expression without origin, ...) at top level, inside cond/while/scan bodies and inside @onnx_function bodies must raise or be proved equivalent.",
   note="Crash points = pass boundaries; 15 programs x 18 passes quick. The model returned after an aborted pass must also stay well-formed (onnx.checker full_check + strict inference) whenever the complete export is: a pass stopped half way may leave annotations that contradict the nodes while values stay right."),
})

CHECKS["C13"] = dict(level="other", design="DESIGN 5/C13", engine="E1",
   technique="CrossHair symbolic execution of the real apply_patches / apply_monkey_patches with symbolic specs, fault position and body exception",
   text="The real patch context managers run on stub targets; which target/attribute/kind each spec names, WHICH make_value / getattr / patch factory raises and whether the body raises are solver variables; the post-condition is that every attribute resolves to its pre-state object (or is absent again) and the ref-count table is empty, for nesting depth 1-2. Counterexamples are replayed concretely. The x64 context managers are executed on all (previous, requested, raises) combinations.",
   note="Partial claim: patch-stack and x64 kernels only (<=3 specs, 2 targets, 3 attributes). That the ~510 live binding specs and JAX's jit caches leave eager behaviour unchanged is a whole-process property outside this technique.")

CHECKS["C05"] = dict(level="other", design="DESIGN 5/C05", engine="E1",
   technique="z3 strings/regular expressions: inclusion of the positional-input name language (from the live compiled regex) in the always-keep predicate (translated from the live AST); declared interface vs jax.eval_shape as enumerated side conditions",
   text="The compiled _POSITIONAL_INPUT_NAME_RE is parsed with re._parser into a z3 regex and the nested closure _should_always_keep is translated from its live AST into a z3 string predicate; z3 decides, over all printable-ASCII strings up to length 12, that every positional name is always kept and that the binder's names in_<i> / in_<i>_nchw are positional names; witnesses are replayed through to_onnx with an unused argument. Input/output count and order, rank, static dims, element-type class, user symbols and requested names are compared with jax.eval_shape on ~150 exported programs incl. unused inputs, outputs that are inputs, duplicated outputs, pytrees, names, layout flags.",
   note="Partial: the custom-naming functions could not be executed by CrossHair (its isinstance interception fails inside onnx_ir Protocols), so requested names are covered only by enumerated programs; part 3 is direct evaluation, not a solver query. AST translator subset is stated; unsupported source is a harness error.")

CHECKS["C09"] = dict(level="translation_validation", design="DESIGN 5/C09",
   technique="translation validation at double precision: z3 equivalence with non-identity uninterpreted roundings for every precision-lowering cast; typed recursive walk for the flag-off side condition",
   text="enable_double_precision=True exports (registry f64 variants, the elementwise family, and programs with constants as Python scalars / numpy f32,f64 arrays / module parameters / inside cond, scan, loop and function bodies) are compared for all real inputs with the jaxpr traced under x64, comparator 1e-10: a float32 detour or a constant that went through float32 is a satisfiable difference, replayed at 1e-12 on inputs moved off the float32 grid. With the flag off every exported model is walked recursively for DOUBLE tensors, casts and constants. The x64 flag is checked on all exit paths of both context managers.",
   note="ORT double-kernel accuracy outside the claim; Real arithmetic abstraction.")
CHECKS["C11"] = dict(level="translation_validation", design="DESIGN 5/C11",
   technique="opset-versioned encodability against onnx.defs + z3 equivalence (C01 query) of the export at each target opset",
   text="For each target opset (quick 21/23/26, thorough 21..27) and each program the model must declare that opset and every node, recursively and in function bodies, must resolve to an operator definition existing at that opset with the attributes and input arity used (a refusal is reported only when onnx.checker rejects the model too); the model is then proved equivalent to the JAX jaxpr for all inputs with the opset-versioned evaluator. An explicit export error is accepted. Value differences present at every opset belong to C01 and are not repeated.",
   note="Opset axis enumerated (six/seven values); opset 27 cannot be loaded by the installed ORT: structural + symbolic only. A schema-only sweep covers one testcase of every registered component (thorough: all) and family A10 puts every opset-gated lowering inside cond/fori/scan/while/function bodies, where the nested builder must see the requested opset.")

CHECKS["C03"] = dict(level="translation_validation", design="DESIGN 5/C03",
   technique="shape mode: z3 decides every operator's shape/type obligation for all bindings of named dimensions; strict encodability predicates replayed with onnx.checker / strict inference / ORT load",
   text="Partial claim. For models exported with named dimensions the shape-mode evaluator (dims as z3 integers) collects every operator obligation - broadcast compatibility, Reshape element counts and -1/0 rules, MatMul/Gemm/Concat agreement, Loop-carried shape invariance - in the top graph, If/Loop bodies and inlined function bodies, and z3 decides them for ALL bindings >= 1 (the generalisation of `strict shape inference passes` from the traced binding to every binding). Structural well-formedness (single definition per scope, visibility, call arity, imported domains, schema availability) is a closed predicate evaluated by the encoder; every refusal must be confirmed by onnx.checker(full_check), strict shape inference or an ORT session, which are also run on every model as direct observations, over flat / nested control-flow / nested @onnx_function programs x {opset 21/23/26, double, symbolic}.",
   note="Only the binding-universal shape part is solver-decided; ORT-specific load failures and file mode not claimed; opset-availability defects belong to C11.")
CHECKS["C08"] = dict(level="translation_validation", design="DESIGN 5/C08",
   technique="shape mode: z3 decides declared dimension == runtime dimension for all bindings, for every annotated value; CrossHair on the shape-loosening kernel",
   text="Every element type and every declared integer dimension or symbol of every value_info (graph inputs/outputs, intermediates, If/Loop bodies, inlined function bodies) is compared with the runtime shape computed by the shape-mode evaluator; for models with named dimensions the equality is a z3 query over unbounded integer dims, so an annotation must hold for every binding, not the traced one. Witness bindings are replayed in ONNX Runtime with the annotated value exposed as an additional output. CrossHair executes ir_postprocess._unknown_shape_like through onnx_ir objects: a dimension is kept or made unknown, never changed.",
   note="Loop bodies evaluated once with loop-invariant carried shapes; nested-body annotations decided but not replayable; data-dependent shapes not encodable.")

for _k in ("C05", "C13", "C17", "C18", "C19"):
    CHECKS[_k]["engine"] = "E1"

NOT_APPLICABLE = {
    "C14": "nondeterminism originates in interpreter hashing/object addresses and process history, not in any input a solver can range over; deciding it means running processes under varied seeds (enumeration of concrete runs), which is outside this technique family",
    "C15": "behaviour lives in protobuf/onnx C-extension serialisation and the filesystem (external-data spill, sidecar cleanup); symbolic execution stops at those boundaries and the remaining logic has a four-bit state",
}

for _i in range(1, 20):
    _p = f"C{_i:02d}"
    if _p not in CHECKS and _p not in NOT_APPLICABLE:
        NOT_APPLICABLE[_p] = "no check registered yet (under construction); no claim is made for this property at this commit"
