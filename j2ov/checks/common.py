"""Shared plumbing for checks: evidence, known findings, verdict lines, exit codes."""
from __future__ import annotations

import collections
import json
import os
import re
import sys
import time

VERIF = "/verif"
FINDINGS = os.path.join(VERIF, "known_findings.json")


def tier_from_env(arg=None):
    t = arg or os.environ.get("VERIF_TIER") or "quick"
    return "thorough" if t.startswith("th") else "quick"


def seed_from_env():
    try:
        return int(os.environ.get("VERIF_SEED", "0"))
    except ValueError:
        return 0


def load_findings(prop):
    try:
        data = json.load(open(FINDINGS))
    except FileNotFoundError:
        return {}
    out = {}
    for e in data.get("findings", []):
        if e.get("property") == prop and e.get("status") == "known":
            out[e["key"]] = e
    return out


def base_pid(pid: str) -> str:
    return re.sub(r"#\d+$", "", pid or "")


def finding_pid(pid: str) -> str:
    """Identity used in finding keys.  Registry testcases are identified by their COMPONENT
    (R/<context>/<component>): which of a component's testcases exposes a numerical defect depends
    on solver models and timing, the defect itself belongs to the component's lowering."""
    p = base_pid(pid)
    for pre in ("OFF/", "D/", "P/"):
        if p.startswith(pre):
            return pre + finding_pid(p[len(pre):])
    if p.startswith("R/"):
        parts = p.split("/")
        return "/".join(parts[:3])
    if p.startswith("G/A1/") and p.count("/") >= 3:
        return p.rsplit("/", 1)[0]  # shape / dtype / operand-order variants of one library call site
    return p


def write_replay(prop, key, payload):
    d = os.path.join(os.environ.get("J2OV_REPLAY_DIR") or os.path.join(VERIF, "replays"), prop)
    os.makedirs(d, exist_ok=True)
    safe = "".join(c if c.isalnum() or c in "-_.=" else "_" for c in key)[:160]
    path = os.path.join(d, safe + ".json")
    with open(path, "w") as f:
        json.dump(payload, f, indent=1, default=str)
    return path


def finish(prop, tier, t0, *, level, coverage, assumptions, violations, harness_errors=0, decided=1, notes=None):
    """violations: list of dict(key, what, payload).  Prints verdict lines, writes evidence,
    returns the exit code."""
    known = load_findings(prop)
    new, kn = [], []
    for v in violations:
        (kn if v["key"] in known else new).append(v)
    seen_known = set()
    for v in kn:
        if v["key"] in seen_known:
            continue
        seen_known.add(v["key"])
        print(f"KNOWN-FINDING: property={prop} {v['key']}: {known[v['key']].get('what', v.get('what',''))}")
    seen_new = set()
    uniq = []
    for v in new:
        if v["key"] not in seen_new:
            seen_new.add(v["key"])
            uniq.append(v)
    new = uniq
    for v in new:
        path = write_replay(prop, v["key"], {"property": prop, "key": v["key"], "what": v.get("what"), **(v.get("payload") or {})})
        print(f"VIOLATION property={prop} replay={path}")
        print(f"  {v['key']}: {v.get('what','')}"[:400])
    cov = dict(coverage)
    cov.setdefault("known_findings_seen", sorted(seen_known))
    cov.setdefault("known_findings_not_reproduced", sorted(set(known) - seen_known))
    ev = {
        "property_id": prop,
        "tier": tier,
        "seed": seed_from_env(),
        "level": level,
        "coverage": cov,
        "assumptions": list(assumptions),
        "wall_s": round(time.time() - t0, 2),
        "violations": len(new),
    }
    if notes:
        ev["notes"] = notes
    evdir = os.environ.get("J2OV_EVIDENCE_DIR") or os.path.join(VERIF, "evidence")  # dev override only
    os.makedirs(evdir, exist_ok=True)
    with open(os.path.join(evdir, f"{prop}.json"), "w") as f:
        json.dump(ev, f, indent=1, default=str)
    if new:
        return 1
    if decided == 0:
        print(f"HARNESS-ERROR property={prop}: no obligation could be decided")
        return 2
    return 0


def summarize_e2(results):
    """Aggregate pipeline results -> (counts, stats, lists)."""
    counts = collections.Counter(r.get("status") for r in results)
    stats = collections.Counter()
    for r in results:
        for k, v in (r.get("stats") or {}).items():
            stats[k] += v
    return counts, stats
