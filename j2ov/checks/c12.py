"""C12 - layout flags only add boundary transposes.

E2: for every subset of flagged inputs/outputs the flagged export fed P.x must return P.(JAX result)
for all x (the pipeline feeds the NCHW permutation of the symbolic input and compares with the
permuted reference).  E1: CrossHair on the real _validate_layout_indices."""
import os
import sys
import time

from .. import corpus, families, pipeline, runner
from . import common, c01, e2check

PROP = "C12"
JOB_TIMEOUT_S = {"quick": 120, "thorough": 600}


def list_jobs(tier):
    ids = [i for i in corpus.registry_ids(include_f64=False) if "nchw" in i.lower()]
    return families.ids("A8", tier) + ids


def options(tier):
    if tier == "thorough":
        return pipeline.Options(timeout_ms=30000, max_queries=128)
    return pipeline.Options(timeout_ms=3000, max_queries=48, max_unknown=1, budget_s=25.0)


HARNESS = '''
from typing import List, Optional
import jax2onnx.converter.conversion_api as M


def accepts_exactly_valid(a: int, b: int, n: int, upper: int) -> bool:
    """
    pre: 0 <= n <= 2 and -2 <= upper <= 4 and -3 <= a <= 5 and -3 <= b <= 5
    post: _
    """
    idx = [a, b][:n]
    valid = all(0 <= i < upper for i in idx) and len(set(idx)) == len(idx)
    try:
        r = M._validate_layout_indices(idx, kind="inputs_as_nchw", upper_bound=upper)
    except (ValueError, TypeError):
        return not valid
    return valid and list(r) == idx


def rejects_bools(flag: bool, upper: int) -> bool:
    """
    pre: 1 <= upper <= 4
    post: _
    """
    try:
        r = M._validate_layout_indices([flag], kind="outputs_as_nchw", upper_bound=upper)
    except (ValueError, TypeError):
        return True
    return False


def none_is_empty(upper: int) -> bool:
    """
    pre: 0 <= upper <= 4
    post: _
    """
    r = M._validate_layout_indices(None, kind="inputs_as_nchw", upper_bound=upper)
    return len(tuple(r)) == 0


def twin_some_accepted(a: int, upper: int) -> bool:
    """
    pre: -3 <= a <= 5 and -2 <= upper <= 4
    post: _
    """
    try:
        M._validate_layout_indices([a], kind="inputs_as_nchw", upper_bound=upper)
    except (ValueError, TypeError):
        return True
    return False  # must be refuted: valid indices exist
'''


def kernel(tier, cov, violations):
    from ..crosshair_util import run_conditions

    os.makedirs("/verif/.work", exist_ok=True)
    path = f"/verif/.work/c12_harness_{os.getpid()}.py"
    open(path, "w").write(HARNESS)
    res = run_conditions(path, ["accepts_exactly_valid", "rejects_bools", "none_is_empty", "twin_some_accepted"], 40 if tier == "quick" else 240)
    os.remove(path)
    cov["layout_index_kernel"] = res
    for name in ("accepts_exactly_valid", "rejects_bools", "none_is_empty"):
        r = res.get(name, {})
        if r.get("verdict") == "counterexample":
            violations.append({"key": f"validate_layout_indices|{name}", "what": r.get("message", "")[-300:], "payload": r})
        elif r.get("verdict") != "confirmed":
            cov.setdefault("inconclusive_kernels", []).append(f"{name}: {r.get('verdict')}")
    if res.get("twin_some_accepted", {}).get("verdict") != "counterexample":
        cov.setdefault("inconclusive_kernels", []).append("twin not refuted")


def post(results, cov, violations, tier):
    try:
        kernel(tier, cov, violations)
    except Exception as e:
        cov["layout_index_kernel"] = f"harness error: {type(e).__name__}: {e}"


EXTRA = [
    "flagged inputs are fed the NCHW permutation of the symbolic NHWC tensor, flagged outputs are compared with the NCHW permutation of the JAX result; dims N,H,W,C = 2,3,4,5 pairwise distinct",
    "Conv-bearing programs are outside the vocabulary bound unless small; boundary-transpose folding around them is covered by C02's pattern families",
    "CrossHair: _validate_layout_indices returns exactly the input when entries are distinct ints in range, else raises (<=2 entries, small boxes)",
]

run_job, main = e2check.make(PROP, "j2ov.checks.c12", list_jobs, options, EXTRA, post=post)

if __name__ == "__main__":
    sys.exit(main(common.tier_from_env(sys.argv[1] if len(sys.argv) > 1 else None)))
