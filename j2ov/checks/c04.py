"""C04 - symbolic-shape exports are correct for every binding of the symbols (lattice part)."""
import sys
import time

from .. import corpus, families, pipeline, runner
from . import common, c01

PROP = "C04"
JOB_TIMEOUT_S = {"quick": 200, "thorough": 900}

LATTICE_Q = [{"B": 1, "N": 1}, {"B": 2, "N": 3}, {"B": 3, "N": 3}, {"B": 1, "N": 2}, {"B": 5, "N": 2}]
LATTICE_T = LATTICE_Q + [{"B": 7, "N": 5}, {"B": 2, "N": 2}, {"B": 4, "N": 1}, {"B": 6, "N": 7}, {"B": 11, "N": 3}]


def _is_symbolic(pid):
    return "_dynamic" in pid or "symbolic" in pid


def list_jobs(tier):
    ids = [i for i in corpus.registry_ids(include_f64=False) if _is_symbolic(i)]
    if tier == "quick":
        ids = ids[:: max(1, len(ids) // 70)]
    return families.ids("A4", tier) + [i for i in families.ids("A8", tier) if "/sym_" in i] + ids


def options(tier, binding):
    o = pipeline.Options(timeout_ms=2500 if tier == "quick" else 30000, max_queries=32 if tier == "quick" else 128, unroll=4, max_input_elems=2048, max_unknown=1 if tier == "quick" else 2, budget_s=15.0 if tier == "quick" else 60.0)
    o.bindings = binding
    return o


def run_job(job, tier):
    try:
        p = c01.get_program(job)
    except corpus.OutOfBound as e:
        return {"job": job, "status": "out_of_bound", "reason": str(e)}
    syms = sorted({d for shp, _ in p.specs for d in shp if isinstance(d, str)})
    if not syms:
        return {"job": job, "status": "out_of_bound", "reason": "no symbolic dims"}
    lattice = LATTICE_Q if tier == "quick" else LATTICE_T
    if tier == "quick" and job.startswith("R/"):
        lattice = lattice[:3]  # registry programs: 1/1, 2/3, 3/3; the generated families get the full lattice
    seen, per = set(), []
    worst = None
    for b in lattice:
        bb = {s: b.get(s, b.get("B", 2)) for s in syms}
        key = tuple(sorted(bb.items()))
        if key in seen:
            continue
        seen.add(key)
        r = pipeline.analyze(p, options(tier, bb))
        r["binding"] = bb
        per.append({"binding": bb, "status": r["status"], "reason": (r.get("reason") or "")[:120]})
        if r["status"] == "violation":
            r["per_binding"] = per
            return r
        if r["status"] in ("export_failed", "reference_failed", "not_encodable", "out_of_bound") and worst is None:
            worst = r
            if r["status"] in ("export_failed", "not_encodable"):
                break
        elif r["status"] != "proved" and worst is None:
            worst = r
    out = worst or r
    out["per_binding"] = per
    out["bindings_proved"] = sum(1 for x in per if x["status"] == "proved")
    # shape mode: operator obligations and output shapes for ALL bindings (z3 over Int dims)
    if out["status"] not in ("export_failed", "reference_failed"):
        from .. import shapecheck

        try:
            sr = shapecheck.analyze_shapes(p, timeout_ms=4000 if tier == "quick" else 30000, check_annotations=False)
        except Exception as e:
            sr = {"status": "harness_error", "reason": f"{type(e).__name__}: {e}", "findings": [], "stats": {}}
        out["shape_mode"] = {"status": sr["status"], "reason": sr.get("reason"), "stats": sr.get("stats")}
        for f in sr.get("findings", []):
            ok, info = shapecheck.replay_finding(p, sr["model"], f)
            if ok:
                out["status"] = "violation"
                out["kind"] = "shape:" + f["kind"]
                out["binding"] = f.get("binding")
                out["witness"] = {"why": f["text"], **{k: v for k, v in info.items() if k != "shapes"}}
                break
            out["shape_mode"].setdefault("not_reproduced", []).append(f["text"][:120])
    return out


ASSUMPTIONS = list(c01.ASSUMPTIONS) + [
    "the model is exported ONCE per binding request with named dimensions; the same symbolic model is then evaluated (value mode) with the symbols bound to each lattice point and compared with the JAX callable traced at that size",
    "value equivalence is decided at lattice bindings (size 1, equal, unequal, primes); operator shape obligations and output shapes are decided by z3 for ALL bindings in shape mode (dims as unbounded integers >= 1), with JAX dimension expressions parsed independently with Python floor semantics",
]


def main(tier):
    t0 = time.time()
    results, crashed = runner.run_sharded("j2ov.checks.c04", tier)
    violations = c01.collect(results, PROP)
    for v, r in zip(violations, [r for r in results if r.get("status") == "violation"]):
        v["key"] = common.base_pid(r["job"]) + "|" + str(r.get("kind", "value"))
        v["what"] = f"binding {r.get('binding')}: " + v["what"]
    cov = c01.evidence_coverage(results, tier)
    cov["lattice"] = LATTICE_Q if tier == "quick" else LATTICE_T
    cov["bindings_proved_total"] = sum(r.get("bindings_proved", 0) for r in results)
    sm = [r.get("shape_mode") for r in results if r.get("shape_mode")]
    agg = {}
    for x in sm:
        for k, v in (x.get("stats") or {}).items():
            agg[k] = round(agg.get(k, 0) + v, 3)
    cov["shape_mode"] = {"programs": len(sm), "proved_for_all_bindings": sum(1 for x in sm if x["status"] == "proved"), "not_encodable": sum(1 for x in sm if x["status"] == "not_encodable"), "queries": agg, "quantifier": "all B,N >= 1 (< 2^31), unbounded z3 integers"}
    cov["worker_crashes"] = crashed
    return common.finish(PROP, tier, t0, level="translation_validation", coverage=cov, assumptions=ASSUMPTIONS, violations=violations, decided=cov["programs"])


if __name__ == "__main__":
    sys.exit(main(common.tier_from_env(sys.argv[1] if len(sys.argv) > 1 else None)))
