"""C17 - cast elimination removes only value-preserving round trips.

1. decision table: the real `_cast_roundtrip_is_value_preserving(s, m)` is evaluated on every
   pair of ir.DataType codes (+ invalid codes); for every accepted pair z3 searches the WHOLE
   value domain of s (bit-vectors / IEEE sorts of the true width) for a value that does not
   survive s -> m -> s.
2. range proof: CrossHair executes the real `_known_integer_value_bounds` on Range(start, limit,
   delta) (graph helpers stubbed) and must confirm that every emitted element lies in the bounds;
   z3 proves that bounds inside range(U) make the T->U->T wrap the identity.
3. rewrite: Cast->Cast graphs go through the real `remove_redundant_casts_ir`; before/after
   are compared for all input values by the E2 evaluator.
"""
from __future__ import annotations

import itertools
import os
import subprocess
import sys
import time

import numpy as np
import z3

from . import common

PROP = "C17"

FLOAT_SORTS = {"FLOAT16": (5, 11), "BFLOAT16": (8, 8), "FLOAT": (8, 24), "DOUBLE": (11, 53)}
COMPLEX_COMPONENT = {"COMPLEX64": "FLOAT", "COMPLEX128": "DOUBLE"}


def _int_format(dt):
    try:
        if not dt.is_integer():
            return None
        return bool(dt.is_signed()), int(dt.bitwidth)
    except Exception:
        return None


def classify(dt):
    """-> ('bool',) | ('int', signed, bits) | ('float', e, s) | ('complex', e, s) | None"""
    name = dt.name
    if name == "BOOL":
        return ("bool",)
    f = _int_format(dt)
    if f is not None:
        return ("int", f[0], f[1])
    if name in FLOAT_SORTS:
        return ("float",) + FLOAT_SORTS[name]
    if name in COMPLEX_COMPONENT:
        return ("complex",) + FLOAT_SORTS[COMPLEX_COMPONENT[name]]
    return None


RNE = z3.RNE()
RTZ = z3.RTZ()


def mk_var(cls, name):
    if cls[0] == "bool":
        return z3.Bool(name)
    if cls[0] == "int":
        return z3.BitVec(name, cls[2])
    if cls[0] == "float":
        return z3.FP(name, z3.FPSort(cls[1], cls[2]))
    if cls[0] == "complex":
        return (z3.FP(name + "_re", z3.FPSort(cls[1], cls[2])), z3.FP(name + "_im", z3.FPSort(cls[1], cls[2])))
    raise ValueError(cls)


def cast(v, src, dst, side):
    """ONNX Cast / numpy astype semantics.  `side` collects definedness conditions (float->int
    out of range is undefined: a round trip that relies on it is not value preserving)."""
    s, d = src[0], dst[0]
    if s == "complex":
        re, im = v
        if d == "complex":
            so = z3.FPSort(dst[1], dst[2])
            return (z3.fpToFP(RNE, re, so), z3.fpToFP(RNE, im, so))
        return cast(re, ("float", src[1], src[2]), dst, side)  # imaginary part discarded
    if d == "complex":
        comp = cast(v, src, ("float", dst[1], dst[2]), side)
        return (comp, z3.FPVal(0.0, z3.FPSort(dst[1], dst[2])))
    if s == "bool":
        if d == "bool":
            return v
        if d == "int":
            return z3.If(v, z3.BitVecVal(1, dst[2]), z3.BitVecVal(0, dst[2]))
        so = z3.FPSort(dst[1], dst[2])
        return z3.If(v, z3.FPVal(1.0, so), z3.FPVal(0.0, so))
    if s == "int":
        _, signed, bits = src
        if d == "bool":
            return v != 0
        if d == "int":
            db = dst[2]
            if db == bits:
                return v
            if db < bits:
                return z3.Extract(db - 1, 0, v)
            return z3.SignExt(db - bits, v) if signed else z3.ZeroExt(db - bits, v)
        so = z3.FPSort(dst[1], dst[2])
        return z3.fpSignedToFP(RNE, v, so) if signed else z3.fpUnsignedToFP(RNE, v, so)
    # float source
    if d == "bool":
        return z3.Not(z3.fpIsZero(v))
    if d == "float":
        return z3.fpToFP(RNE, v, z3.FPSort(dst[1], dst[2]))
    _, signed, bits = dst
    # defined only when trunc(v) is representable in the integer type; all comparisons stay in
    # the source float format (bounds are powers of two, hence exact or +-oo in that format)
    so = v.sort()
    t = z3.fpRoundToIntegral(RTZ, v)
    lo_c = z3.FPVal(-(2.0 ** (bits - 1)) if signed else 0.0, so)
    hi_c = z3.FPVal(2.0 ** (bits - 1) if signed else 2.0 ** bits, so)
    side.append(z3.And(z3.Not(z3.fpIsNaN(v)), z3.Not(z3.fpIsInf(v)), z3.fpGEQ(t, lo_c), z3.fpLT(t, hi_c)))
    return z3.fpToSBV(RTZ, v, z3.BitVecSort(bits)) if signed else z3.fpToUBV(RTZ, v, z3.BitVecSort(bits))


def differs(a, b, cls):
    if cls[0] == "complex":
        return z3.Or(a[0] != b[0], a[1] != b[1])
    return a != b  # SMT-LIB structural equality: -0 != +0, NaN == NaN (single NaN)


def witness_value(model, v, cls):
    if cls[0] == "complex":
        return (str(model.eval(v[0], model_completion=True)), str(model.eval(v[1], model_completion=True)))
    return str(model.eval(v, model_completion=True))


NP_NAMES = {
    "BOOL": "bool", "INT8": "int8", "INT16": "int16", "INT32": "int32", "INT64": "int64", "UINT8": "uint8",
    "UINT16": "uint16", "UINT32": "uint32", "UINT64": "uint64", "FLOAT16": "float16", "FLOAT": "float32",
    "DOUBLE": "float64", "COMPLEX64": "complex64", "COMPLEX128": "complex128", "BFLOAT16": "bfloat16",
    "INT4": "int4", "UINT4": "uint4", "INT2": "int2", "UINT2": "uint2",
}


def np_dtype(name):
    n = NP_NAMES.get(name)
    if n is None:
        return None
    if n in ("bfloat16", "int4", "uint4", "int2", "uint2"):
        import ml_dtypes

        return np.dtype(getattr(ml_dtypes, n, None)) if hasattr(ml_dtypes, n) else None
    return np.dtype(n)


def concrete_value(model, v, cls, npdt):
    """z3 model value -> numpy scalar array of the source dtype"""
    if cls[0] == "bool":
        return np.array(z3.is_true(model.eval(v, model_completion=True)), dtype=npdt)
    if cls[0] == "int":
        raw = model.eval(v, model_completion=True).as_long()
        if cls[1] and raw >= 2 ** (cls[2] - 1):
            raw -= 2 ** cls[2]
        return np.array(raw).astype(npdt)
    if cls[0] == "float":
        return _fp_to_np(model.eval(v, model_completion=True), npdt)
    re = _fp_to_np(model.eval(v[0], model_completion=True), np.float64)
    im = _fp_to_np(model.eval(v[1], model_completion=True), np.float64)
    return np.array(complex(float(re), float(im))).astype(npdt)


def _fp_to_np(val, npdt):
    if z3.is_fp_value(val) or hasattr(val, "isNaN"):
        if val.isNaN():
            return np.array(np.nan).astype(npdt)
        if val.isInf():
            return np.array(-np.inf if val.isNegative() else np.inf).astype(npdt)
        if val.isZero():
            return np.array(-0.0 if val.isNegative() else 0.0).astype(npdt)
    # exact rational via significand/exponent
    s = z3.simplify(z3.fpToReal(val))
    from fractions import Fraction

    fr = Fraction(s.numerator_as_long(), s.denominator_as_long())
    return np.array(float(fr)).astype(npdt)


def replay_roundtrip(val, src_np, mid_np):
    """numpy round trip on the witness: True when the value is NOT preserved."""
    with np.errstate(all="ignore"):
        r = val.astype(mid_np).astype(src_np)
    a, b = np.asarray(val), np.asarray(r)
    if a.dtype.kind in "fc" or str(a.dtype) == "bfloat16":
        a64 = a.astype(np.complex128 if a.dtype.kind == "c" else np.float64)
        b64 = b.astype(np.complex128 if b.dtype.kind == "c" else np.float64)
        if np.isnan(a64).any() and np.isnan(b64).any():
            return False, r
        if a64 == b64:
            if a.dtype.kind != "c" and np.signbit(a64) != np.signbit(b64):
                return True, r
            return False, r
        return True, r
    return bool(a != b), r


def decision_table(ir_opt, ir, tier, out):
    """Part 1."""
    dts = list(ir.DataType)
    codes = [int(d) for d in dts] + [-1, 9999]
    accepted, unsat, sat_replayed, spurious, unknown, not_enc = 0, 0, 0, 0, 0, []
    violations = []
    samples = []
    solver_s = 0.0
    pairs = 0
    for s_code, m_code in itertools.product(codes, codes):
        pairs += 1
        ok = bool(ir_opt._cast_roundtrip_is_value_preserving(s_code, m_code))
        if not ok:
            continue
        accepted += 1
        if s_code == m_code:
            unsat += 1  # identity cast: trivially preserved, no query content
            continue
        try:
            sdt, mdt = ir.DataType(s_code), ir.DataType(m_code)
        except ValueError:
            violations.append({"key": f"table|{s_code}->{m_code}", "what": "accepted an invalid dtype code", "payload": {}})
            continue
        sc, mc = classify(sdt), classify(mdt)
        key = f"table|{sdt.name}->{mdt.name}->{sdt.name}"
        if sc is None or mc is None:
            not_enc.append(key)
            # accepted a pair whose semantics I cannot encode: confirm by exhaustive numpy if tiny, else report inconclusive
            continue
        v = mk_var(sc, "v")
        side = []
        mid = cast(v, sc, mc, side)
        back = cast(mid, mc, sc, side)
        q = z3.Or(differs(back, v, sc), z3.Not(z3.And(*side)) if side else z3.BoolVal(False))
        sol = z3.Solver()
        sol.set("timeout", 60000 if tier == "quick" else 600000)
        sol.add(q)
        t0 = time.time()
        r = str(sol.check())
        solver_s += time.time() - t0
        if len(samples) < 4:
            samples.append({"pair": key, "query": "exists v. cast(cast(v)) != v over the full domain", "verdict": r})
        if r == "unsat":
            unsat += 1
        elif r == "unknown":
            unknown += 1
            out["inconclusive"].append(key)
        else:
            m = sol.model()
            wv = witness_value(m, v, sc)
            snp, mnp = np_dtype(sdt.name), np_dtype(mdt.name)
            reproduced, rt = None, None
            if snp is not None and mnp is not None:
                try:
                    cv = concrete_value(m, v, sc, snp)
                    reproduced, rt = replay_roundtrip(cv, snp, mnp)
                except Exception as e:  # replay impossible
                    reproduced = None
                    rt = f"{type(e).__name__}: {e}"
            if reproduced:
                sat_replayed += 1
                violations.append({"key": key, "what": f"accepted pair loses value {wv} (numpy round trip gives {rt})", "payload": {"source": sdt.name, "intermediate": mdt.name, "witness": wv, "roundtrip": str(rt)}})
            elif reproduced is None:
                unknown += 1
                out["inconclusive"].append(key + " (witness not replayable: " + str(wv) + ")")
            else:
                spurious += 1
                out["inconclusive"].append(key + " (spurious: " + str(wv) + ")")
    out["table"] = {"pairs": pairs, "accepted": accepted, "unsat": unsat, "sat_replayed": sat_replayed, "spurious": spurious, "unknown": unknown, "accepted_not_encodable": not_enc, "solver_s": round(solver_s, 2)}
    out["samples"].extend(samples)
    # reachability twins: pairs the function must reject are indeed lossy in my encoding
    twins_ok = 0
    twins = [("FLOAT", "FLOAT16"), ("INT32", "INT8"), ("INT64", "DOUBLE"), ("DOUBLE", "FLOAT"), ("INT32", "FLOAT"), ("INT16", "INT8"), ("UINT8", "BOOL")]
    for a, b in twins:
        sdt, mdt = getattr(ir.DataType, a), getattr(ir.DataType, b)
        sc, mc = classify(sdt), classify(mdt)
        v = mk_var(sc, "v")
        side = []
        back = cast(cast(v, sc, mc, side), mc, sc, side)
        sol = z3.Solver()
        sol.set("timeout", 60000)
        sol.add(z3.Or(differs(back, v, sc), z3.Not(z3.And(*side)) if side else z3.BoolVal(False)))
        if str(sol.check()) == "sat":
            twins_ok += 1
    out["table"]["twins_sat"] = f"{twins_ok}/{len(twins)}"
    if twins_ok != len(twins):
        out["harness_errors"].append("cast encoding twins not all sat")
    return violations


def known_values_fit(ir_opt, ir, out):
    """decision of the real _cast_roundtrip_known_values_fit (value_min >= target_min and value_max <=
    target_max with target bounds from the REAL _integer_dtype_bounds) => T->U->T is the identity on every
    v in [lo,hi] (z3 Int, all widths).  The CAST semantics (two's-complement wrap) are taken from the
    dtype's bit width and signedness, independently of the function under test; a satisfying model is
    replayed with numpy casts and the real decision function on a stub graph."""
    ints = [d for d in ir.DataType if _int_format(d) is not None]
    n = 0
    bad, viol = [], []
    t0 = time.time()

    def true_range(dt):
        signed, bits = _int_format(dt)
        return (-(1 << (bits - 1)), (1 << (bits - 1)) - 1) if signed else (0, (1 << bits) - 1)

    for T, U in itertools.product(ints, ints):
        tb = ir_opt._integer_dtype_bounds(int(T))
        ub = ir_opt._integer_dtype_bounds(int(U))
        if tb is None or ub is None:
            continue
        tT, tU = true_range(T), true_range(U)
        v, lo, hi = z3.Ints("v lo hi")
        mU = tU[1] - tU[0] + 1
        mT = tT[1] - tT[0] + 1
        wrapU = ((v - tU[0]) % mU) + tU[0]
        wrapT = ((wrapU - tT[0]) % mT) + tT[0]
        s = z3.Solver()
        s.set("timeout", 20000)
        # v is a value of the source type inside the proven domain [lo,hi]; the decision accepted it
        s.add(lo <= v, v <= hi, v >= tT[0], v <= tT[1], lo >= ub[0], hi <= ub[1], wrapT != v)
        r = str(s.check())
        n += 1
        if r == "sat":
            m = s.model()
            vv = m.eval(v, model_completion=True).as_long()
            rep = _replay_known_fit(ir_opt, T, U, vv)
            if rep:
                viol.append({"key": f"known_values_fit|{T.name}->{U.name}", "what": f"_cast_roundtrip_known_values_fit accepts the known domain [{vv},{vv}] for {T.name}->{U.name}->{T.name}, but the round trip maps {vv} to {rep}", "payload": {"T": T.name, "U": U.name, "value": vv, "roundtrip": rep}})
            else:
                bad.append(f"{T.name}->{U.name}: sat at v={vv} not reproduced")
        elif r != "unsat":
            bad.append(f"{T.name}->{U.name}: {r}")
    out["known_values_fit"] = {"pairs": n, "not_unsat": bad, "violations": len(viol), "solver_s": round(time.time() - t0, 2)}
    return bad, viol


def _replay_known_fit(ir_opt, T, U, v):
    """numpy round trip of v through U differs AND the real decision function accepts the constant v"""
    import numpy as np

    try:
        tnp, unp = T.numpy(), U.numpy()
        rt = int(np.asarray(v).astype(tnp).astype(unp).astype(tnp))
        if rt == int(np.asarray(v).astype(tnp)):
            return None
        saved = ir_opt._known_integer_value_bounds
        ir_opt._known_integer_value_bounds = lambda nodes, source: (v, v)
        try:
            ok = ir_opt._cast_roundtrip_known_values_fit([], object(), int(T), int(U))
        finally:
            ir_opt._known_integer_value_bounds = saved
        return rt if ok else None
    except Exception:
        return None


CH_HARNESS = '''
"""CrossHair harness generated by j2ov.checks.c17 (real function, stubbed graph helpers)."""
from typing import Optional, Tuple
import jax2onnx.converter.ir_optimizations as M


class _V:  # stand-in for ir.Value (only identity matters to the function under test)
    def __init__(self, tag):
        self.tag = tag


class _N:
    def __init__(self, op_type, inputs, domain=""):
        self.op_type = op_type
        self.inputs = inputs
        self.domain = domain


def _run(start: int, limit: int, delta: int, wrap_ops: int):
    vs, vl, vd, out = _V("s"), _V("l"), _V("d"), _V("o")
    rng = _N("Range", [vs, vl, vd])
    prod = {id(out): rng}
    cur = out
    for k in range(wrap_ops):
        nv = _V("w%d" % k)
        prod[id(nv)] = _N(["Reshape", "Identity", "Squeeze"][k % 3], [cur])
        cur = nv
    consts = {id(vs): start, id(vl): limit, id(vd): delta}

    class _A:
        def __init__(self, v):
            self.v = v
            self.size = 1
            self.dtype = type("D", (), {"kind": "i"})()

        def reshape(self, *_):
            return [self.v]

    saved = (M._to_numpy_from_any, M._producer_node, M._node_inputs, M.np)

    class _NP:
        @staticmethod
        def asarray(a):
            return a

    M._to_numpy_from_any = lambda v: _A(consts[id(v)]) if id(v) in consts else None
    M._producer_node = lambda nodes, v: prod.get(id(v))
    M._node_inputs = lambda n: n.inputs
    M.np = _NP
    try:
        return M._known_integer_value_bounds([], cur)
    finally:
        M._to_numpy_from_any, M._producer_node, M._node_inputs, M.np = saved


def bounds_cover_every_element(start: int, limit: int, delta: int, i: int, wrap_ops: int) -> bool:
    """
    pre: -BOX <= start <= BOX and -BOX <= limit <= BOX and -DB <= delta <= DB
    pre: 0 <= i <= 2 * BOX and 0 <= wrap_ops <= 2
    post: _
    """
    b = _run(start, limit, delta, wrap_ops)
    if delta == 0:
        return b is None
    if b is None:
        return False  # a constant Range must be resolved
    lo, hi = b
    x = start + i * delta
    emitted = (x < limit) if delta > 0 else (x > limit)
    if not emitted:
        return True
    return lo <= x <= hi


def bounds_are_tight(start: int, limit: int, delta: int) -> bool:
    """
    pre: -BOX <= start <= BOX and -BOX <= limit <= BOX and -DB <= delta <= DB and delta != 0
    post: _
    """
    b = _run(start, limit, delta, 0)
    if b is None:
        return False
    lo, hi = b
    nonempty = (start < limit) if delta > 0 else (start > limit)
    if not nonempty:
        return lo > hi
    # both ends are emitted elements
    return (lo == start or hi == start) and (lo - start) % delta == 0 and (hi - start) % delta == 0 and lo <= hi


def twin_reaches_nonempty(start: int, limit: int, delta: int) -> bool:
    """
    pre: -BOX <= start <= BOX and -BOX <= limit <= BOX and -DB <= delta <= DB and delta != 0
    post: _
    """
    b = _run(start, limit, delta, 0)
    # must be refuted: there are non-empty ranges
    return b is None or b[0] > b[1]
'''


def crosshair_range(tier, out):
    box, db = (40, 9) if tier == "quick" else (2000, 50)
    timeout = 60 if tier == "quick" else 600
    os.makedirs("/verif/.work", exist_ok=True)
    path = f"/verif/.work/c17_range_harness_{os.getpid()}.py"
    with open(path, "w") as f:
        f.write(CH_HARNESS.replace("BOX", str(box)).replace("DB", str(db)))
    from ..crosshair_util import run_conditions

    res = run_conditions(path, ["bounds_cover_every_element", "bounds_are_tight", "twin_reaches_nonempty"], timeout)
    try:
        os.remove(path)
    except OSError:
        pass
    out["range_proof"] = {"box": box, "delta_box": db, "per_condition_timeout_s": timeout, "results": res}
    violations = []
    for name in ("bounds_cover_every_element", "bounds_are_tight"):
        r = res.get(name, {})
        if r.get("verdict") == "counterexample":
            violations.append({"key": f"range|{name}", "what": r.get("message", "")[:300], "payload": r, "needs_replay": True})
        elif r.get("verdict") != "confirmed":
            out["inconclusive"].append(f"range|{name}: {r.get('verdict')}")
    tw = res.get("twin_reaches_nonempty", {})
    if tw.get("verdict") != "counterexample":
        out["harness_errors"].append("range twin not refuted: " + str(tw.get("verdict")))
    return violations


def replay_range_counterexample(ir_opt, msg):
    """Re-run the real function on the concrete counterexample through real onnx_ir objects."""
    import re
    import onnx_ir as ir

    m = re.search(r"\((-?\d+), (-?\d+), (-?\d+)", msg)
    if not m:
        return None
    start, limit, delta = (int(x) for x in m.groups())
    vals = [ir.Value(name=n, const_value=ir.tensor(np.array(v, dtype=np.int64))) for n, v in (("s", start), ("l", limit), ("d", delta))]
    node = ir.Node("", "Range", inputs=vals, num_outputs=1)
    b = ir_opt._known_integer_value_bounds([node], node.outputs[0])
    emitted = list(range(start, limit, delta)) if delta else []
    if b is None:
        return delta != 0
    lo, hi = b
    return any(not (lo <= x <= hi) for x in emitted)


def rewrite_family(ir_opt, tier, out):
    from . import c02

    viol = []
    out["rewrite"] = {}
    for fam in ("cast_pair", "range_cast"):
        res = c02.run_family(fam, tier)
        out["rewrite"][fam] = res["summary"]
        out["samples"].extend(res["samples"][:2])
        viol += res["violations"]
    return viol


def main(tier):
    t0 = time.time()
    import logging

    logging.disable(logging.WARNING)
    import onnx_ir as ir
    import jax2onnx.converter.ir_optimizations as ir_opt

    out = {"inconclusive": [], "samples": [], "harness_errors": []}
    violations = []
    violations += decision_table(ir_opt, ir, tier, out)
    bad, kv = known_values_fit(ir_opt, ir, out)
    violations += kv
    for b in bad:
        out["inconclusive"].append("known_values_fit " + b)
    try:
        for v in crosshair_range(tier, out):
            rep = replay_range_counterexample(ir_opt, v["what"])
            if rep:
                violations.append(v)
            else:
                out["inconclusive"].append("range counterexample not reproduced: " + v["what"][:120])
    except Exception as e:
        out["harness_errors"].append(f"crosshair range: {type(e).__name__}: {e}")
    try:
        violations += rewrite_family(ir_opt, tier, out)
    except ImportError:
        out["rewrite"] = "C02 pattern family not available"
    tb = out["table"]
    cov = {
        "explanation": "z3 decides, for every (source, intermediate) pair accepted by the real decision function, whether any value of the full-width source domain fails the round trip (BitVec / IEEE FloatingPoint sorts); CrossHair symbolically executes the real _known_integer_value_bounds for Range triples in a box; z3 (Int) proves the wrap identity used by _cast_roundtrip_known_values_fit; Cast->Cast graphs rewritten by the real pass are compared before/after for all inputs.",
        "obligations": tb["accepted"] + out["known_values_fit"]["pairs"] + 2,
        "discharged": tb["unsat"] + (out["known_values_fit"]["pairs"] - len(bad)) + sum(1 for r in out.get("range_proof", {}).get("results", {}).values() if r.get("verdict") == "confirmed"),
        "samples": out["samples"],
        "decision_table": tb,
        "known_values_fit": out["known_values_fit"],
        "range_proof": out.get("range_proof"),
        "rewrite": out.get("rewrite"),
        "inconclusive": out["inconclusive"],
        "harness_errors": out["harness_errors"],
        "functions_encoded": ["_cast_roundtrip_is_value_preserving (all dtype pairs, executed)", "_integer_dtype_bounds", "_known_integer_value_bounds", "_known_integer_scalar", "remove_redundant_casts_ir"],
        "bounds": {"value_domain": "full width of every ONNX integer/float/bool/complex type", "range_box": out.get("range_proof", {}).get("box")},
        "exhaustive": False,
    }
    assumptions = [
        "ONNX Cast == numpy astype semantics: int narrowing wraps, float->int truncates toward zero and is undefined out of range, int->float and float->float round to nearest even, complex->real drops the imaginary part",
        "NaN compared as a class (single NaN in SMT-LIB); sign of zero and subnormals are distinguished",
        "CrossHair explores the real function with _to_numpy_from_any/_producer_node/_node_inputs/np replaced by stubs inside the harness; the box is the bound",
    ]
    decided = tb["unsat"] + tb["sat_replayed"]
    rc = common.finish(PROP, tier, t0, level="other", coverage=cov, assumptions=assumptions, violations=violations, decided=decided)
    if out["harness_errors"] and rc == 0:
        print("HARNESS-ERROR property=C17 " + "; ".join(out["harness_errors"]))
        return 2
    return rc


if __name__ == "__main__":
    sys.exit(main(common.tier_from_env(sys.argv[1] if len(sys.argv) > 1 else None)))
