"""C10 - JAX transformations commute with export (C01's query on T(f))."""
import sys

from .. import corpus, families, pipeline
from . import common, e2check

PROP = "C10"
JOB_TIMEOUT_S = {"quick": 120, "thorough": 600}
KEYS = ("vmap", "jit", "grad", "jvp", "vjp", "remat", "checkpoint", "custom_jvp", "custom_vjp", "batching")


def list_jobs(tier):
    ids = [i for i in corpus.registry_ids(include_f64=False) if any(k in i.lower() for k in KEYS)]
    return families.ids("A7", tier) + ids


def options(tier):
    if tier == "thorough":
        return pipeline.Options(timeout_ms=30000, max_queries=128)
    return pipeline.Options(timeout_ms=3000, max_queries=48, max_unknown=1, budget_s=25.0)


EXTRA = [
    "the reference jaxpr of T(f) is traced with no converter patches active, so JAX's own batching/differentiation rules are the oracle for the substitute primitives' rules",
    "vmap axis size 2, f with 3 input elements; derivative programs compare the derivative values JAX computes",
]

run_job, main = e2check.make(PROP, "j2ov.checks.c10", list_jobs, options, EXTRA)

if __name__ == "__main__":
    sys.exit(main(common.tier_from_env(sys.argv[1] if len(sys.argv) > 1 else None)))
