"""C07 - ONNX function boundaries are transparent; bodies shared only when equal (E2 with inlining)."""
import sys

from .. import corpus, families, pipeline
from . import common, e2check

PROP = "C07"
JOB_TIMEOUT_S = {"quick": 120, "thorough": 600}


def list_jobs(tier):
    ids = [i for i in corpus.registry_ids(include_f64=False) if "onnx_functions" in i or "/onnx_fn" in i]
    return families.ids("A6", tier) + ids


def options(tier):
    if tier == "thorough":
        return pipeline.Options(timeout_ms=30000, max_queries=128)
    return pipeline.Options(timeout_ms=3000, max_queries=48, max_unknown=1, budget_s=25.0)


EXTRA = [
    "function-domain call nodes are interpreted by inlining the FunctionProto body; call arity vs definition arity, undefined callee and missing inputs make the model invalid (reported)",
    "wrong sharing of a body between two call sites makes both sites compute one function, which differs from JAX for some input: the solver finds it",
    "hash collisions of captured constant bytes and id() reuse after garbage collection are outside the claim",
]

run_job, main = e2check.make(PROP, "j2ov.checks.c07", list_jobs, options, EXTRA)

if __name__ == "__main__":
    sys.exit(main(common.tier_from_env(sys.argv[1] if len(sys.argv) > 1 else None)))
