"""Factory for checks that apply the C01 translation-validation pipeline to a program list."""
from __future__ import annotations

import sys
import time

from .. import corpus, families, pipeline, runner
from . import common, c01


def make(prop, modname, list_jobs, options, assumptions_extra=(), level="translation_validation", post=None, key_of=None):
    def run_job(job, tier):
        try:
            p = c01.get_program(job)
        except corpus.OutOfBound as e:
            return {"job": job, "status": "out_of_bound", "reason": str(e)}
        return pipeline.analyze(p, options(tier))

    def main(tier):
        t0 = time.time()
        results, crashed = runner.run_sharded(modname, tier)
        violations = c01.collect(results, prop)
        if key_of:
            for v in violations:
                v["key"] = key_of(v)
        cov = c01.evidence_coverage(results, tier)
        cov["bounds"].update({"per_query_timeout_ms": options(tier).timeout_ms, "max_distinct_queries_per_program": options(tier).max_queries, "loop_unroll": options(tier).unroll})
        cov["worker_crashes"] = crashed
        if post:
            post(results, cov, violations, tier)
        return common.finish(prop, tier, t0, level=level, coverage=cov, assumptions=list(c01.ASSUMPTIONS) + list(assumptions_extra), violations=violations, decided=cov["programs"])

    return run_job, main
