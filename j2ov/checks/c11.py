"""C11 - the requested opset is honoured.

For each target opset o (quick: 21, 23, newest ORT loads; thorough: 21..newest ONNX defines) and
each program: (i) the model declares o and every node (recursively, incl. function bodies) resolves
to an operator definition that exists at o with the attributes/inputs used - decided by the encoder
against onnx.defs; (ii) the model is equivalent to the JAX jaxpr for all inputs (C01's z3 query,
interpreted by the opset-versioned onnx_sem).  An explicit export error is accepted instead."""
from __future__ import annotations

import sys
import time

import numpy as np
import onnx

from .. import corpus, families, pipeline, runner
from . import common, c01

PROP = "C11"
JOB_TIMEOUT_S = {"quick": 150, "thorough": 600}


def newest():
    return int(onnx.defs.onnx_opset_version())


ORT_MAX = 26


def opsets(tier):
    n = newest()
    if tier == "quick":
        return sorted({21, 23, min(n, ORT_MAX)})
    return list(range(21, n + 1))


def programs(tier):
    reg = corpus.registry_ids(include_f64=False)
    a1 = families.ids("A1", "quick")
    extra = families.ids("A5", "quick")[:12] + families.ids("A2", "quick")[:12]
    special = [i for i in reg if any(k in i.lower() for k in ("opset", "float16", "bfloat16", "bf16", "f16", "swish", "silu", "rms", "attention", "gelu", "cumprod", "bitcast"))]
    gated = families.ids("A10", tier)
    if tier == "quick":
        return sorted(set(reg[::17] + special[::5])) + a1[::9] + extra[::2] + gated
    return sorted(set(reg[::3] + special)) + a1[::2] + extra + gated  # sized so that the thorough tier ends in about 1.5 h on 16 cores


def sweep_programs(tier):
    """schema-only sweep: the first (quick) / every (thorough) non-f64 testcase of every registered
    component, so that an operator newer than the requested opset cannot hide behind the sampling"""
    reg = corpus.registry_ids(include_f64=False)
    if tier != "quick":
        return reg
    first = {}
    for i in reg:
        first.setdefault("/".join(i.split("/")[:3]), i)
    return sorted(first.values())


def list_jobs(tier):
    full = programs(tier)
    fs = set(full)
    jobs = [f"{o}|{p}" for p in full for o in opsets(tier)]
    sw = opsets(tier) if tier != "quick" else [21, 23]
    jobs += [f"S{o}|{p}" for p in sweep_programs(tier) if p not in fs for o in sw]
    return jobs


def options(tier, selfcheck=True):
    return pipeline.Options(timeout_ms=2500 if tier == "quick" else 20000, max_queries=32 if tier == "quick" else 96, unroll=4, selfcheck=selfcheck, max_unknown=1 if tier == "quick" else 2, budget_s=15.0 if tier == "quick" else 60.0)


def schema_problems(model, declared):
    """every node must have a schema at the declared opset of its domain, with known attributes
    and an admissible number of inputs/outputs"""
    probs = []
    imports = {imp.domain or "": imp.version for imp in model.opset_import}
    fn_keys = {(f.domain, f.name) for f in model.functions}

    TYPE_STR = {v: "tensor(" + k.lower().replace("float", "float").replace("bool", "bool") + ")" for k, v in onnx.TensorProto.DataType.items()}
    TYPE_STR.update({onnx.TensorProto.FLOAT: "tensor(float)", onnx.TensorProto.DOUBLE: "tensor(double)", onnx.TensorProto.FLOAT16: "tensor(float16)", onnx.TensorProto.BFLOAT16: "tensor(bfloat16)", onnx.TensorProto.BOOL: "tensor(bool)", onnx.TensorProto.STRING: "tensor(string)"})
    for nm in ("INT8", "INT16", "INT32", "INT64", "UINT8", "UINT16", "UINT32", "UINT64", "COMPLEX64", "COMPLEX128"):
        TYPE_STR[getattr(onnx.TensorProto, nm)] = f"tensor({nm.lower()})"
    types = {}

    def collect_types(g):
        for vi in list(g.input) + list(g.output) + list(g.value_info):
            if vi.type.tensor_type.elem_type:
                types.setdefault(vi.name, vi.type.tensor_type.elem_type)
        for t in g.initializer:
            types.setdefault(t.name, t.data_type)
        for n in g.node:
            if n.op_type == "Constant":
                for a in n.attribute:
                    if a.type == onnx.AttributeProto.TENSOR:
                        types.setdefault(n.output[0], a.t.data_type)
            for a in n.attribute:
                if a.type == onnx.AttributeProto.GRAPH:
                    collect_types(a.g)
                elif a.type == onnx.AttributeProto.GRAPHS:
                    for sg in a.graphs:
                        collect_types(sg)

    collect_types(model.graph)

    def type_problems(n, sch, ver, where):
        allowed = {tc.type_param_str: set(tc.allowed_type_strs) for tc in sch.type_constraints}
        for formal_list, actual in ((sch.inputs, n.input), (sch.outputs, n.output)):
            for i, name in enumerate(actual):
                if not name or name not in types:
                    continue
                if i < len(formal_list):
                    formal = formal_list[i]
                elif formal_list and formal_list[-1].option == onnx.defs.OpSchema.FormalParameterOption.Variadic:
                    formal = formal_list[-1]
                else:
                    continue
                ts = TYPE_STR.get(types[name])
                ok = allowed.get(formal.type_str)
                if ok is None:
                    ok = {formal.type_str} if formal.type_str.startswith("tensor(") else None
                if ts and ok is not None and ts not in ok:
                    probs.append(f"{where}: {n.op_type}@{sch.since_version} (resolved at opset {ver}) does not accept {ts} for '{formal.name}'")

    def check_nodes(nodes, imports, where):
        for n in nodes:
            dom = n.domain or ""
            if (n.domain, n.op_type) in fn_keys:
                if dom not in imports:
                    probs.append(f"{where}: call to {dom}::{n.op_type} without opset import of its domain")
                continue
            if dom not in ("", "ai.onnx"):
                if dom not in imports:
                    probs.append(f"{where}: node {n.op_type} in domain {dom!r} that is not imported")
                continue
            ver = imports.get("", imports.get("ai.onnx"))
            if ver is None:
                probs.append(f"{where}: no default-domain opset import")
                continue
            try:
                sch = onnx.defs.get_schema(n.op_type, max_inclusive_version=ver, domain="")
            except Exception:
                sch = None
            if sch is None:
                try:
                    later = onnx.defs.get_schema(n.op_type, domain="")
                    probs.append(f"{where}: {n.op_type} does not exist at opset {ver} (introduced in {later.since_version})")
                except Exception:
                    probs.append(f"{where}: {n.op_type} is not an ONNX operator")
                continue
            if sch.deprecated:
                probs.append(f"{where}: {n.op_type} is deprecated at opset {ver}")
            for a in n.attribute:
                if a.name not in sch.attributes:
                    probs.append(f"{where}: {n.op_type}@{sch.since_version} has no attribute {a.name!r} at opset {ver}")
                if a.type == onnx.AttributeProto.GRAPH:
                    check_nodes(a.g.node, imports, where + "/" + n.op_type)
                elif a.type == onnx.AttributeProto.GRAPHS:
                    for g in a.graphs:
                        check_nodes(g.node, imports, where + "/" + n.op_type)
            for name, attr in sch.attributes.items():
                if attr.required and not any(a.name == name for a in n.attribute):
                    probs.append(f"{where}: {n.op_type} misses required attribute {name!r}")
            type_problems(n, sch, ver, where)
            nin = len(n.input)
            if nin < sch.min_input or nin > sch.max_input:
                probs.append(f"{where}: {n.op_type}@{sch.since_version} takes {sch.min_input}..{sch.max_input} inputs, got {nin}")
            if len(n.output) > sch.max_output:
                probs.append(f"{where}: {n.op_type} has too many outputs")

    if imports.get("", None) != declared:
        probs.append(f"model declares default opset {imports.get('', None)} instead of the requested {declared}")
    check_nodes(model.graph.node, imports, "graph")
    for f in model.functions:
        fimp = {imp.domain or "": imp.version for imp in f.opset_import}
        if fimp.get("", declared) > declared:
            probs.append(f"function {f.name} imports default opset {fimp.get('')} > requested {declared}")
        merged = dict(imports)
        merged.update(fimp)
        check_nodes(f.node, merged, f"function {f.name}")
    return probs


def run_job(job, tier):
    o, pid = job.split("|", 1)
    schema_only = o.startswith("S")
    o = int(o.lstrip("S"))
    try:
        prog = c01.get_program(pid)
    except corpus.OutOfBound as e:
        return {"job": job, "status": "out_of_bound"}
    if int(prog.config.get("opset", 23)) > 23 and o < int(prog.config["opset"]):
        pass  # the testcase asks for a newer opset; exporting at an older one must still be honest
    prog.config = dict(prog.config, opset=o)
    shapes = prog.concrete_shapes()
    cj = None
    if not schema_only:
        try:
            cj = pipeline.trace_reference(prog, shapes)
        except Exception as e:
            return {"job": job, "status": "reference_failed", "reason": f"{type(e).__name__}: {str(e)[:120]}"}
    try:
        model = pipeline.export(prog)
    except Exception as e:
        return {"job": job, "status": "raised", "reason": f"{type(e).__name__}: {str(e)[:160]}", "opset": o}
    probs = schema_problems(model, o)
    if probs:
        # replay of a refusal: the ONNX checker must reject the model as well
        confirmed = None
        try:
            onnx.checker.check_model(model, full_check=True)
            confirmed = False
        except Exception as e:
            confirmed = True
            cerr = str(e)[:200]
        if confirmed or any("declares default opset" in p for p in probs):
            ops = sorted({p.split(": ", 1)[1].split(" ")[0] for p in probs if ": " in p})
            return {"job": job, "status": "violation", "kind": "schema", "opset": o, "ops": ops, "witness": {"why": "; ".join(probs[:4]), "checker": cerr if confirmed else "accepts"}}
        return {"job": job, "status": "harness_error", "reason": "encoder refused a model the ONNX checker accepts: " + "; ".join(probs[:3])}
    if schema_only:
        return {"job": job, "status": "schema_ok", "opset": o, "schema_ok": True}
    opts = options(tier, selfcheck=(o <= ORT_MAX))
    if o > ORT_MAX:
        # ONNX Runtime cannot load this opset: a solver candidate cannot be replayed, so it is never
        # reported (the structural/schema part above still is); proofs (unsat) stand
        opts.replay = False
    try:
        r = pipeline.validate(prog, cj, model, shapes, opts)
    except (pipeline.NotEncodable, pipeline.DomainError) as e:
        return {"job": job, "status": "schema_ok_not_encodable", "reason": str(e)[:150], "opset": o}
    except Exception as e:
        return {"job": job, "status": "harness_error", "reason": f"{type(e).__name__}: {str(e)[:150]}"}
    if o > ORT_MAX and r.get("status") in ("candidate", "violation"):
        r["status"] = "inconclusive"
        r["reason"] = "solver candidate at an opset ONNX Runtime cannot load: not replayable"
    r["job"] = job
    r["opset"] = o
    r["schema_ok"] = True
    return r


ASSUMPTIONS = list(c01.ASSUMPTIONS) + [
    "operator availability, attributes and input arity are read from onnx.defs of the installed onnx at the declared opset; a refusal is reported only if onnx.checker (full_check) rejects the model too",
    "the opset axis is enumerated; the solver decides the inputs quantifier of the equivalence at each opset",
    "opsets newer than ONNX Runtime can load (27) are validated structurally and symbolically without ORT self-validation/replay",
]


def main(tier):
    t0 = time.time()
    results, crashed = runner.run_sharded("j2ov.checks.c11", tier)
    violations = []
    # a value difference that also exists at the default opset (23) is not opset-dependent: it is
    # C01's defect and is reported there; C11 keeps differences that appear only at some opsets
    at_default = {common.finding_pid(r["job"].split("|", 1)[1]) for r in results if r.get("status") == "violation" and r.get("kind") != "schema" and r.get("opset") == 23}
    not_opset_specific = set()
    # a schema/type problem present at EVERY tested opset is not an opset matter (C03 reports it)
    sch = {}
    for r in results:
        if r.get("status") == "violation" and r.get("kind") == "schema" and "does not exist at opset" not in str((r.get("witness") or {}).get("why")):
            sch.setdefault((common.base_pid(r["job"].split("|", 1)[1]), tuple(r.get("ops") or [])), set()).add(r.get("opset"))
    ran = {}
    for r in results:
        if r.get("opset") is not None and "|" in str(r.get("job")):
            ran.setdefault(common.base_pid(r["job"].split("|", 1)[1]), set()).add(r.get("opset"))
    everywhere = {k for k, v in sch.items() if v >= ran.get(k[0], set(opsets(tier)))}
    for r in results:
        if r.get("status") == "violation" and r.get("kind") == "schema" and (common.base_pid(r["job"].split("|", 1)[1]), tuple(r.get("ops") or [])) in everywhere:
            not_opset_specific.add(common.base_pid(r["job"].split("|", 1)[1]) + " " + ",".join(r.get("ops") or []))
            r["status"] = "not_opset_specific"
    # a value defect that C01 already lists as a known finding for this component exists at the default
    # opset as well (which testcase exposes it in one run depends on solver models): not an opset matter
    try:
        import json as _json

        c01_known = {f["key"].rsplit("|", 1)[0] for f in _json.load(open("/verif/known_findings.json"))["findings"] if f.get("property") == "C01" and f.get("status") == "known"}
    except Exception:
        c01_known = set()
    at_default |= c01_known
    for r in results:
        if r.get("status") == "violation" and r.get("kind") != "schema" and common.finding_pid(r["job"].split("|", 1)[1]) in at_default:
            not_opset_specific.add(common.finding_pid(r["job"].split("|", 1)[1]))
            continue
        if r.get("status") == "violation":
            pid = r["job"].split("|", 1)[1]
            if r.get("kind") == "schema":
                key = f"schema|ops={','.join(r.get('ops') or [])}"
            else:
                key = f"value|{common.finding_pid(pid)}"
            w = r.get("witness") or {}
            violations.append({"key": key, "what": f"opset {r.get('opset')}: {pid}: {w.get('why') or w.get('what')}", "payload": {"job": r["job"], "witness": w}})
    cov = c01.evidence_coverage([r for r in results if r.get("stats")], tier)
    cov["opsets"] = opsets(tier)
    cov["value_defects_present_at_every_opset_reported_by_C01"] = sorted(not_opset_specific)
    cov["schema_checked_models"] = sum(1 for r in results if r.get("schema_ok") or r.get("kind") == "schema" or r.get("status") == "schema_ok_not_encodable")
    cov["raised_explicitly"] = sum(1 for r in results if r.get("status") == "raised")
    by = {}
    for r in results:
        by.setdefault(r.get("opset"), {}).setdefault(r.get("status"), 0)
        by[r.get("opset")][r.get("status")] += 1
    cov["per_opset"] = {str(k): v for k, v in by.items()}
    cov["worker_crashes"] = crashed
    decided = cov["programs"] + sum(1 for r in results if r.get("kind") == "schema")
    return common.finish(PROP, tier, t0, level="translation_validation", coverage=cov, assumptions=ASSUMPTIONS, violations=violations, decided=max(decided, cov["schema_checked_models"]))


if __name__ == "__main__":
    sys.exit(main(common.tier_from_env(sys.argv[1] if len(sys.argv) > 1 else None)))
