"""C18 - the bundled validation helper is a sound oracle.

Forking symbolic execution of the REAL `user_interface._run_allclose`: numpy, onnxruntime and jax
are replaced (inside this process only) by a small symbolic-array model; output elements of the
"model" and of `fn` are z3 terms, rtol/atol are symbolic non-negative reals; Python branches on
symbolic booleans are explored by re-execution with a decision stack.  For every path that returns
(True, _) z3 must refute  path-condition & ~Spec,  Spec = equal output count, equal shapes and
|e-g| <= atol + rtol*|g| on the UNCAST values (exact equality for non-float pairs).
Counterexamples are replayed through the real `allclose` on a tiny ONNX model.
"""
from __future__ import annotations

import itertools
import os
import sys
import tempfile
import time
import types

import numpy as real_np
import z3

from . import common

PROP = "C18"


# --------------------------------------------------------------------------- symbolic numpy shim

class Fork:
    """decision stack for re-execution"""

    def __init__(self):
        self.prefix = []
        self.taken = []
        self.pc = []

    def decide(self, cond):
        i = len(self.taken)
        s = z3.Solver()
        s.set("timeout", 5000)
        s.add(*self.base, *self.pc, *ROUNDING_AXIOMS)
        can_t = str(_check(s, cond)) != "unsat"
        can_f = str(_check(s, z3.Not(cond))) != "unsat"
        if i < len(self.prefix):
            choice = self.prefix[i]
        else:
            choice = True if can_t else False
        forced = not (can_t and can_f)
        self.taken.append((choice, forced))
        self.pc.append(cond if choice else z3.Not(cond))
        return choice


def _check(s, c):
    s.push()
    s.add(c)
    r = s.check()
    s.pop()
    return r


FORK: Fork = None  # type: ignore
ROUNDING_AXIOMS = []


class SymBool:
    def __init__(self, term):
        self.term = term

    def __bool__(self):
        if isinstance(self.term, bool):
            return self.term
        return FORK.decide(self.term)


def kind(dt):
    dt = real_np.dtype(dt)
    if dt == real_np.bool_:
        return "b"
    if dt.kind in "iu":
        return "i"
    if dt.kind == "f":
        return "f"
    if dt.kind == "c":
        return "c"
    raise TypeError(dt)


def wrap_int(v, dt):
    ii = real_np.iinfo(dt)
    lo, hi = int(ii.min), int(ii.max)
    m = hi - lo + 1
    return ((v - lo) % m) + lo


def cast_term(v, src, dst):
    sk, dk = kind(src), kind(dst)
    if real_np.dtype(src) == real_np.dtype(dst):
        return v
    if sk == "b":
        return z3.If(v, z3.IntVal(1), z3.IntVal(0)) if dk == "i" else (z3.If(v, z3.RealVal(1), z3.RealVal(0)) if dk == "f" else v)
    if sk == "i":
        if dk == "i":
            s_ii, d_ii = real_np.iinfo(src), real_np.iinfo(dst)
            if d_ii.min <= s_ii.min and s_ii.max <= d_ii.max:
                return v
            return wrap_int(v, dst)
        if dk == "f":
            return z3.ToReal(v)
        return v != 0
    if sk == "f":
        if dk == "f":
            if real_np.dtype(dst).itemsize >= real_np.dtype(src).itemsize:
                return v  # widening is exact
            # narrowing is a NON-identity rounding (uninterpreted, with its relative error bound): a
            # helper that compares in the narrower type can hide a difference below that resolution
            name = f"rnd{real_np.dtype(dst).itemsize * 8}"
            f = z3.Function(name, z3.RealSort(), z3.RealSort())
            r = f(v)
            eps = {4: 2.0 ** -23, 2: 2.0 ** -10}.get(real_np.dtype(dst).itemsize, 2.0 ** -7)
            ROUNDING_AXIOMS.append(z3.If(r - v >= 0, r - v, v - r) <= z3.RealVal(eps) * z3.If(v >= 0, v, -v))
            return r
        if dk == "i":
            t = z3.If(v >= 0, z3.ToInt(v), -z3.ToInt(-v))
            return wrap_int(t, dst)
        return v != 0
    raise TypeError((src, dst))


class SymArr:
    """concrete dtype/shape, symbolic elements"""

    def __init__(self, dtype, elems):
        self.dtype = real_np.dtype(dtype)
        self.e = elems  # numpy object array

    shape = property(lambda s: s.e.shape)
    ndim = property(lambda s: s.e.ndim)
    size = property(lambda s: s.e.size)

    def astype(self, dt, copy=True):
        dt = real_np.dtype(dt)
        out = real_np.empty(self.e.shape, dtype=object)
        for i in real_np.ndindex(*self.e.shape) if self.e.shape else [()]:
            out[i] = cast_term(self.e[i], self.dtype, dt)
        return SymArr(dt, out)

    def __sub__(self, o):
        o = o if isinstance(o, SymArr) else None
        out = real_np.empty(self.e.shape, dtype=object)
        for i in real_np.ndindex(*self.e.shape) if self.e.shape else [()]:
            out[i] = _real(self.e[i], self.dtype) - _real(o.e[i], o.dtype)
        return SymArr(real_np.float64, out)

    def max(self):
        return 0.0

    def __getitem__(self, idx):
        return SymArr(self.dtype, real_np.asarray(self.e[idx], dtype=object))

    # shape-only operations act on the object array of terms
    def reshape(self, *shape, **kw):
        shp = shape[0] if len(shape) == 1 and not isinstance(shape[0], (int, real_np.integer)) else shape
        return SymArr(self.dtype, self.e.reshape(shp))

    def ravel(self, *a, **k):
        return SymArr(self.dtype, self.e.ravel())

    flatten = ravel

    def squeeze(self, axis=None):
        return SymArr(self.dtype, real_np.squeeze(self.e, axis=axis))

    def transpose(self, *axes):
        return SymArr(self.dtype, self.e.transpose(*axes))

    T = property(lambda s: SymArr(s.dtype, s.e.T))

    def copy(self, *a, **k):
        return SymArr(self.dtype, self.e.copy())

    def view(self, *a, **k):
        raise TypeError("view() of a symbolic array")


def _real(v, dt):
    k = kind(dt)
    if k == "f":
        return v
    if k == "i":
        return z3.ToReal(v)
    return z3.If(v, z3.RealVal(1), z3.RealVal(0))


class FakeNP:
    """the subset of numpy that _run_allclose touches, over SymArr"""

    ndarray = SymArr
    floating = real_np.floating
    complexfloating = real_np.complexfloating
    integer = real_np.integer
    bool_ = real_np.bool_
    float32 = real_np.float32
    float64 = real_np.float64

    def __init__(self, rtol, atol):
        self._rtol, self._atol = rtol, atol

    def __getattr__(self, name):  # dtypes, constants and helpers not touched by symbolic data
        return getattr(real_np, name)

    @staticmethod
    def result_type(*a):
        return real_np.result_type(*a)

    @staticmethod
    def asarray(x, dtype=None):
        return x if isinstance(x, SymArr) else real_np.asarray(x, dtype=dtype)

    @staticmethod
    def issubdtype(a, b):
        return real_np.issubdtype(a, b)

    @staticmethod
    def transpose(x, perm):
        return SymArr(x.dtype, real_np.transpose(x.e, perm))

    @staticmethod
    def abs(x):
        return x

    # shape-only numpy functions over SymArr
    @staticmethod
    def squeeze(x, axis=None):
        return x.squeeze(axis) if isinstance(x, SymArr) else real_np.squeeze(x, axis=axis)

    @staticmethod
    def reshape(x, shape, *a, **k):
        return x.reshape(shape) if isinstance(x, SymArr) else real_np.reshape(x, shape)

    @staticmethod
    def ravel(x, *a, **k):
        return x.ravel() if isinstance(x, SymArr) else real_np.ravel(x)

    @staticmethod
    def expand_dims(x, axis):
        return SymArr(x.dtype, real_np.expand_dims(x.e, axis)) if isinstance(x, SymArr) else real_np.expand_dims(x, axis)

    @staticmethod
    def atleast_1d(x):
        return SymArr(x.dtype, real_np.atleast_1d(x.e)) if isinstance(x, SymArr) else real_np.atleast_1d(x)

    @staticmethod
    def broadcast_to(x, shape):
        return SymArr(x.dtype, real_np.broadcast_to(x.e, shape)) if isinstance(x, SymArr) else real_np.broadcast_to(x, shape)

    @staticmethod
    def broadcast_arrays(*xs):
        shp = real_np.broadcast_shapes(*[x.shape for x in xs])
        return [FakeNP.broadcast_to(x, shp) for x in xs]

    @staticmethod
    def shape(x):
        return x.shape

    @staticmethod
    def ndim(x):
        return x.ndim

    @staticmethod
    def size(x):
        return x.size

    def allclose(self, a, b, rtol=None, atol=None, equal_nan=False):
        if a.shape != b.shape:
            try:
                real_np.broadcast_shapes(a.shape, b.shape)
            except ValueError:
                raise ValueError("operands could not be broadcast together")
        conds = []
        A = real_np.broadcast_to(a.e, real_np.broadcast_shapes(a.shape, b.shape))
        B = real_np.broadcast_to(b.e, real_np.broadcast_shapes(a.shape, b.shape))
        for i in real_np.ndindex(*A.shape) if A.shape else [()]:
            x, y = _real(A[i], a.dtype), _real(B[i], b.dtype)
            d = x - y
            conds.append(z3.If(d >= 0, d, -d) <= atol + rtol * z3.If(y >= 0, y, -y))
        return SymBool(z3.And(*conds) if conds else True)

    @staticmethod
    def array_equal(a, b):
        if a.shape != b.shape:
            return False
        conds = []
        for i in real_np.ndindex(*a.shape) if a.shape else [()]:
            x, y = a.e[i], b.e[i]
            if kind(a.dtype) != kind(b.dtype):
                x, y = _real(x, a.dtype), _real(y, b.dtype)
            conds.append(x == y)
        return SymBool(z3.And(*conds) if conds else True)


def fresh_arr(name, dtype, shape, base):
    dt = real_np.dtype(dtype)
    out = real_np.empty(shape, dtype=object)
    k = kind(dt)
    for n, i in enumerate(real_np.ndindex(*shape) if shape else [()]):
        if k == "b":
            v = z3.Bool(f"{name}{n}")
        elif k == "i":
            v = z3.Int(f"{name}{n}")
            ii = real_np.iinfo(dt)
            base.append(z3.And(v >= int(ii.min), v <= int(ii.max)))
        else:
            v = z3.Real(f"{name}{n}")
            base.append(z3.And(v >= -(2 ** 40), v <= 2 ** 40))
        out[i] = v
    return SymArr(dt, out)


def spec_formula(jax_outs, ort_outs, rtol, atol, out_nchw):
    """the property: what a returned True must imply"""
    if len(jax_outs) != len(ort_outs):
        return z3.BoolVal(False)
    conds = []
    for idx, (e, g) in enumerate(zip(jax_outs, ort_outs)):
        ge = g.e
        if out_nchw and idx in out_nchw and ge.ndim == 4:
            ge = real_np.transpose(ge, [0, 2, 3, 1])
        if e.shape != ge.shape:
            return z3.BoolVal(False)
        ke, kg = kind(e.dtype), kind(g.dtype)
        for i in real_np.ndindex(*e.shape) if e.shape else [()]:
            x, y = e.e[i], ge[i]
            if ke == "f" or kg == "f":
                xr, yr = _real(x, e.dtype), _real(y, g.dtype)
                d = xr - yr
                # margin: numpy evaluates the tolerance test in floating point; a difference that
                # exceeds the exact bound by less than 1e-6 relative is rounding noise, not a finding
                conds.append(z3.If(d >= 0, d, -d) <= (atol + rtol * z3.If(yr >= 0, yr, -yr)) * z3.RealVal("1.000001") + z3.RealVal("0.000000001"))
            elif ke == kg:
                conds.append(x == y)
            else:
                conds.append(_real(x, e.dtype) == _real(y, g.dtype))
    return z3.And(*conds) if conds else z3.BoolVal(True)


def explore(ui, jax_outs, ort_outs, rtol, atol, base, out_nchw):
    """enumerate all paths of the real _run_allclose under the shim; returns list of
    (verdict_bool, message, path_condition)"""
    global FORK
    fake_np = FakeNP(rtol, atol)

    class Sess:
        def __init__(self, *a, **k):
            pass

        def get_inputs(self):
            return []

        def run(self, names, feeds):
            return list(ort_outs)

    fake_ort = types.SimpleNamespace(
        SessionOptions=lambda: types.SimpleNamespace(),
        GraphOptimizationLevel=types.SimpleNamespace(ORT_DISABLE_ALL=0),
        InferenceSession=Sess,
    )
    fake_importlib = types.SimpleNamespace(import_module=lambda name: fake_ort)
    fake_jax = types.SimpleNamespace(
        device_get=lambda x: x,
        tree_util=types.SimpleNamespace(tree_flatten=lambda x: (list(x) if isinstance(x, (tuple, list)) else [x], None)),
    )
    saved = (ui.np, ui.importlib, ui.jax)
    paths = []
    prefix = []
    try:
        ui.np, ui.importlib, ui.jax = fake_np, fake_importlib, fake_jax
        for _ in range(256):
            FORK = Fork()
            FORK.base = base
            FORK.prefix = list(prefix)
            fn = lambda: tuple(jax_outs) if len(jax_outs) != 1 else jax_outs[0]
            try:
                res = ui._run_allclose(fn, "model.onnx", [], {}, rtol=rtol, atol=atol, inputs_as_nchw=None, outputs_as_nchw=out_nchw)
                paths.append((bool(res[0]), res[1], list(FORK.pc)))
            except Exception as e:  # the helper raised: not a "match"
                paths.append((False, f"raised {type(e).__name__}: {e}", list(FORK.pc)))
            # backtrack
            taken = FORK.taken
            k = len(taken) - 1
            while k >= 0 and (taken[k][1] or taken[k][0] is False):
                k -= 1
            if k < 0:
                break
            prefix = [t[0] for t in taken[:k]] + [False]
        else:
            paths.append((None, "path bound hit", []))
    finally:
        ui.np, ui.importlib, ui.jax = saved
    return paths


DT = {"bool": real_np.bool_, "i32": real_np.int32, "i64": real_np.int64, "f32": real_np.float32, "f64": real_np.float64,
      "u8": real_np.uint8, "u32": real_np.uint32, "i8": real_np.int8, "f16": real_np.float16}


def configs(tier):
    shapes = [(), (2,), (2, 1), (1, 2)] if tier == "quick" else [(), (2,), (2, 1), (1, 2), (2, 2), (1,)]
    for je, oe in itertools.product(DT, DT):
        for sj, so in itertools.product(shapes, shapes):
            if tier == "quick" and sj != so and (je, oe) not in (("f32", "f32"), ("i32", "i32")):
                continue
            if tier == "quick" and je != oe and not {je, oe} <= {"bool", "i32", "i64", "f32", "f64"}:
                continue  # the rarer element types: same-type pairs in the quick tier, all pairs thorough
            yield {"jax": [(je, sj)], "ort": [(oe, so)], "nchw": None}
    # output counts
    for nj, no in ((1, 2), (2, 1), (2, 2)):
        yield {"jax": [("f32", (2,))] * nj, "ort": [("f32", (2,))] * no, "nchw": None}
    yield {"jax": [("f32", (2,)), ("i32", ())], "ort": [("f32", (2,)), ("i64", ())], "nchw": None}
    # NCHW outputs
    yield {"jax": [("f32", (1, 2, 1, 2))], "ort": [("f32", (1, 2, 1, 2))], "nchw": [0]}
    yield {"jax": [("f32", (1, 2, 2, 1))], "ort": [("f32", (1, 1, 2, 2))], "nchw": [0]}


def replay(cfg, model, jax_outs, ort_outs, rtol, atol):
    """Build a tiny ONNX model emitting the witness ORT tensors and an fn returning the witness JAX
    tensors; the real allclose must return True although the spec is false."""
    import onnx
    from onnx import helper, numpy_helper
    import jax2onnx

    def val(arr):
        out = real_np.empty(arr.shape, dtype=arr.dtype)
        for i in real_np.ndindex(*arr.shape) if arr.shape else [()]:
            v = model.eval(arr.e[i], model_completion=True)
            k = kind(arr.dtype)
            if k == "b":
                out[i] = z3.is_true(v)
            elif k == "i":
                out[i] = v.as_long()
            else:
                out[i] = float(v.numerator_as_long()) / float(v.denominator_as_long()) if z3.is_rational_value(v) else 0.0
        return out

    rt = model.eval(rtol, model_completion=True)
    at = model.eval(atol, model_completion=True)
    rt = float(rt.numerator_as_long()) / float(rt.denominator_as_long())
    at = float(at.numerator_as_long()) / float(at.denominator_as_long())
    jv = [val(a) for a in jax_outs]
    ov = [val(a) for a in ort_outs]
    nodes, outs = [], []
    for i, a in enumerate(ov):
        nodes.append(helper.make_node("Constant", [], [f"o{i}"], value=numpy_helper.from_array(a, f"c{i}")))
        outs.append(helper.make_tensor_value_info(f"o{i}", helper.np_dtype_to_tensor_dtype(a.dtype), list(a.shape)))
    g = helper.make_graph(nodes, "g", [], outs)
    m = helper.make_model(g, opset_imports=[helper.make_opsetid("", 21)], ir_version=10)
    d = tempfile.mkdtemp(prefix="c18_", dir="/verif/.work")
    path = os.path.join(d, "m.onnx")
    onnx.save(m, path)
    x64 = any(a.dtype in (real_np.float64, real_np.int64) for a in jv)
    import jax

    prev = bool(jax.config.jax_enable_x64)
    try:
        def fn():
            import jax.numpy as jnp

            r = tuple(jnp.asarray(a) for a in jv)
            return r if len(r) != 1 else r[0]

        ok, msg = jax2onnx.allclose(fn, path, [], rtol=rt, atol=at, enable_double_precision=x64, outputs_as_nchw=cfg["nchw"])
    finally:
        import shutil

        shutil.rmtree(d, ignore_errors=True)
    after = bool(jax.config.jax_enable_x64)
    return ok, {"jax_outputs": [a.tolist() for a in jv], "ort_outputs": [a.tolist() for a in ov], "rtol": rt, "atol": at, "allclose_returned": [ok, msg], "x64_restored": prev == after}


def replay_mixed_width(cfg):
    """The solver's rounding function is uninterpreted, so its model need not be a real float32
    rounding.  For configurations with one float64 and one float32 side, craft the witness the
    query describes: wide = narrow * (1 + 2^-30) (rounds to `narrow` in float32), tolerances 0."""
    import onnx
    from onnx import helper, numpy_helper
    import jax2onnx

    if len(cfg["jax"]) != 1 or len(cfg["ort"]) != 1:
        return False, {}
    (jd, js), (od, osh) = cfg["jax"][0], cfg["ort"][0]
    if {jd, od} != {"f32", "f64"} or js != osh:
        return False, {}
    narrow = (real_np.arange(int(real_np.prod(js)) if js else 1, dtype=real_np.float32).reshape(js) + 1.25)
    wide = narrow.astype(real_np.float64) * (1.0 + 2.0 ** -30)
    jv = wide if jd == "f64" else narrow
    ov = wide if od == "f64" else narrow
    node = helper.make_node("Constant", [], ["o0"], value=numpy_helper.from_array(ov, "c0"))
    g = helper.make_graph([node], "g", [], [helper.make_tensor_value_info("o0", helper.np_dtype_to_tensor_dtype(ov.dtype), list(ov.shape))])
    m = helper.make_model(g, opset_imports=[helper.make_opsetid("", 21)], ir_version=10)
    d = tempfile.mkdtemp(prefix="c18_", dir="/verif/.work")
    path = os.path.join(d, "m.onnx")
    onnx.save(m, path)
    try:
        def fn():
            import jax.numpy as jnp

            return jnp.asarray(jv)

        ok, msg = jax2onnx.allclose(fn, path, [], rtol=0.0, atol=0.0, enable_double_precision=True, outputs_as_nchw=cfg["nchw"])
    finally:
        import shutil

        shutil.rmtree(d, ignore_errors=True)
    return ok, {"jax_outputs": [jv.tolist()], "ort_outputs": [ov.tolist()], "rtol": 0.0, "atol": 0.0, "allclose_returned": [ok, msg], "crafted": "wide = narrow*(1+2^-30)"}


def x64_kernel(ui):
    """_temporary_x64 restores the flag on every exit (side condition, 8 concrete paths)."""
    import jax

    bad = []
    for prev, enabled, raises in itertools.product((False, True), (False, True), (False, True)):
        jax.config.update("jax_enable_x64", prev)
        try:
            with ui._temporary_x64(enabled):
                if bool(jax.config.jax_enable_x64) != enabled:
                    bad.append(("not set", prev, enabled))
                if raises:
                    raise RuntimeError("x")
        except RuntimeError:
            pass
        if bool(jax.config.jax_enable_x64) != prev:
            bad.append(("not restored", prev, enabled, raises))
    jax.config.update("jax_enable_x64", False)
    return bad


def main(tier):
    t0 = time.time()
    import logging

    logging.disable(logging.WARNING)
    os.makedirs("/verif/.work", exist_ok=True)
    import jax2onnx.user_interface as ui

    stats = {"configs": 0, "paths": 0, "true_paths": 0, "unsat": 0, "sat": 0, "unknown": 0, "replayed": 0, "spurious": 0, "solver_s": 0.0, "path_bound_hit": 0}
    violations, samples, inconclusive = [], [], []
    twin_ok = False
    for cfg in configs(tier):
        stats["configs"] += 1
        base = []
        rtol, atol = z3.Real("rtol"), z3.Real("atol")
        base += [rtol >= 0, atol >= 0, rtol <= 1, atol <= 1000]
        jax_outs = [fresh_arr(f"e{i}_", DT[d], s, base) for i, (d, s) in enumerate(cfg["jax"])]
        ort_outs = [fresh_arr(f"g{i}_", DT[d], s, base) for i, (d, s) in enumerate(cfg["ort"])]
        del ROUNDING_AXIOMS[:]
        paths = explore(ui, jax_outs, ort_outs, rtol, atol, base, cfg["nchw"])
        spec = spec_formula(jax_outs, ort_outs, rtol, atol, cfg["nchw"])
        for verdict, msg, pc in paths:
            stats["paths"] += 1
            if verdict is None:
                stats["path_bound_hit"] += 1
                inconclusive.append(f"{cfg}: path bound")
                continue
            if not verdict:
                continue
            stats["true_paths"] += 1
            s = z3.Solver()
            s.set("timeout", 20000 if tier == "quick" else 120000)
            s.add(*base, *pc, *ROUNDING_AXIOMS, z3.Not(spec))
            t1 = time.time()
            r = str(s.check())
            stats["solver_s"] += time.time() - t1
            if len(samples) < 3:
                samples.append({"config": str(cfg), "path_condition_atoms": len(pc), "query": "pc & ~Spec", "verdict": r})
            if r == "unsat":
                stats["unsat"] += 1
                # vacuity twin (once): the same path with Spec replaced by False must be sat
                if not twin_ok:
                    s2 = z3.Solver()
                    s2.add(*base, *pc)
                    twin_ok = str(s2.check()) == "sat"
            elif r == "sat":
                stats["sat"] += 1
                ok, info = replay(cfg, s.model(), jax_outs, ort_outs, rtol, atol)
                if not ok:
                    ok2, info2 = replay_mixed_width(cfg)
                    if ok2:
                        ok, info = ok2, info2
                jd = ",".join(d for d, _ in cfg["jax"])
                od = ",".join(d for d, _ in cfg["ort"])
                if ok:
                    stats["replayed"] += 1
                    key = f"allclose|jax={jd}|ort={od}" + ("|nchw" if cfg["nchw"] else "")
                    violations.append({"key": key, "what": f"allclose returns True although outputs differ beyond tolerance: jax={info['jax_outputs']} ort={info['ort_outputs']} rtol={info['rtol']} atol={info['atol']}", "payload": {"config": str(cfg), **info}})
                else:
                    stats["spurious"] += 1
                    inconclusive.append(f"{cfg}: model not reproduced by real allclose ({info['allclose_returned']})")
            else:
                stats["unknown"] += 1
                inconclusive.append(f"{cfg}: solver unknown")
    bad_x64 = x64_kernel(ui)
    for b in bad_x64:
        violations.append({"key": f"temporary_x64|{b}", "what": f"_temporary_x64 leaves jax_enable_x64 changed: {b}", "payload": {}})
    cov = {
        "explanation": "forking symbolic execution of the real user_interface._run_allclose with numpy/onnxruntime/jax replaced by a symbolic-array shim; per returning-True path z3 decides path-condition & ~Spec over element values (Real/Int with wrap/Bool) and symbolic rtol, atol >= 0; sat models are replayed through the real allclose on a constant-output ONNX model.",
        "obligations": stats["true_paths"],
        "discharged": stats["unsat"],
        "samples": samples or [{"note": "none"}],
        "queries": {k: (round(v, 2) if isinstance(v, float) else v) for k, v in stats.items()},
        "solver_s": round(stats["solver_s"], 2),
        "inconclusive": inconclusive[:50],
        "twin_path_condition_sat": twin_ok,
        "x64_kernel_paths": 8,
        "bounds": {"outputs": "1..2 per side", "dtypes": sorted(DT), "shapes": "rank 0..2 with <= 2 elements per axis (+ two 4-D NCHW cases)", "float_values": "|v| <= 2^40, finite, Real arithmetic (float32/float64 rounding below tolerance semantics)", "rtol": "[0,1]", "atol": "[0,1000]"},
        "functions_encoded": ["user_interface._run_allclose (executed)", "_to_numpy_output", "_is_floating_dtype", "_temporary_x64 (8 concrete paths)"],
    }
    assumptions = [
        "numpy semantics of astype/allclose/array_equal/transpose/issubdtype as modelled by the shim: float->int truncates, int narrowing wraps, allclose(a,b) == all(|a-b| <= atol + rtol|b|)",
        "NaN/Inf outputs and complex outputs are outside the bound",
        "Spec compares UNCAST values: an integer expected value against a float model output is compared as real numbers",
    ]
    rc = common.finish(PROP, tier, t0, level="other", coverage=cov, assumptions=assumptions, violations=violations, decided=stats["unsat"] + stats["replayed"])
    if rc == 0 and not twin_ok:
        print("HARNESS-ERROR property=C18 no satisfiable True-path (vacuous)")
        return 2
    return rc


if __name__ == "__main__":
    sys.exit(main(common.tier_from_env(sys.argv[1] if len(sys.argv) > 1 else None)))
