"""C03 - every export is a well-formed, loadable ONNX model (partial).

Solver part: shape mode - every node's shape/type constraints hold for ALL bindings of the named
dimensions (z3 over Int dims), in the top graph, in If/Loop bodies and in function bodies.
Encodability preconditions (closed predicates evaluated by the encoder): names defined exactly once
per scope and before use, nested bodies reference only visible values, every call resolves to one
function of matching arity whose domain is imported, every standard node has a schema at the
declared opset.  Every refusal is replayed with onnx.checker(full_check), strict shape inference and
an ONNX Runtime session; those three are also run on every model as direct observations."""
from __future__ import annotations

import sys
import time

import numpy as np
import onnx

from .. import corpus, families, pipeline, runner, shapecheck
from . import common, c01, c11

PROP = "C03"
JOB_TIMEOUT_S = {"quick": 120, "thorough": 600}

CONFIGS_Q = [{}, {"opset": 21}, {"enable_double_precision": True}]
CONFIGS_T = CONFIGS_Q + [{"opset": 26}, {"opset": 21, "enable_double_precision": True}]


def list_jobs(tier):
    reg = corpus.registry_ids(include_f64=False)
    progs = families.ids("A5", tier) + families.ids("A6", tier) + families.ids("A4", tier)[::2] + families.ids("A8", tier)[::5] + families.ids("A7", tier)[::6]
    a1 = families.ids("A1", tier)
    progs += sorted(set(a1[::3] + [i for i in a1 if "/dbl." in i or "/mixdt." in i])) + families.ids("A2", tier)[::2]
    progs += reg[::7] if tier == "quick" else reg[::2]
    cfgs = CONFIGS_Q if tier == "quick" else CONFIGS_T
    jobs = []
    for p in progs:
        for i, c in enumerate(cfgs):
            if c.get("enable_double_precision") and p.startswith("R/"):
                continue  # registry callables are instantiated per precision: use their own _f64 variants below
            if i and tier == "quick" and not (p.startswith("G/A5") or p.startswith("G/A6") or sum(map(ord, p)) % 3 == 0):
                continue
            jobs.append(f"{i}|{p}")
    f64 = [i for i in corpus.registry_ids(include_f64=True) if "_f64#" in i]
    jobs += [f"0|{p}" for p in (f64[::9] if tier == "quick" else f64[::2])]
    return jobs


def structural(model):
    """independent scope / SSA / call walk over the ModelProto"""
    probs = []
    fns = {(f.domain, f.name): f for f in model.functions}
    if len(fns) != len(model.functions):
        probs.append("two functions share (domain, name)")
    imports = {imp.domain or "" for imp in model.opset_import}

    def graph(g, outer, where):
        defined = set()
        for i in g.input:
            if i.name in defined:
                probs.append(f"{where}: input {i.name} declared twice")
            defined.add(i.name)
        for t in g.initializer:
            if t.name in defined and t.name not in {i.name for i in g.input}:
                probs.append(f"{where}: initializer {t.name} defined twice")
            defined.add(t.name)
        for n in g.node:
            for x in n.input:
                if x and x not in defined and x not in outer:
                    probs.append(f"{where}: node {n.op_type} uses '{x}' before definition / out of scope")
            for a in n.attribute:
                if a.type == onnx.AttributeProto.GRAPH:
                    graph(a.g, outer | defined, f"{where}/{n.op_type}.{a.name}")
                elif a.type == onnx.AttributeProto.GRAPHS:
                    for sg in a.graphs:
                        graph(sg, outer | defined, f"{where}/{n.op_type}.{a.name}")
            if n.domain not in ("", "ai.onnx"):
                f = fns.get((n.domain, n.op_type))
                if f is None:
                    probs.append(f"{where}: call to undefined function {n.domain}::{n.op_type}")
                else:
                    if len(n.input) > len(f.input):
                        probs.append(f"{where}: call {n.op_type} passes {len(n.input)} inputs, definition has {len(f.input)}")
                    if len(n.output) > len(f.output):
                        probs.append(f"{where}: call {n.op_type} binds {len(n.output)} outputs, definition has {len(f.output)}")
                if n.domain not in imports:
                    probs.append(f"{where}: domain {n.domain!r} of {n.op_type} is not imported by the model")
            for o in n.output:
                if not o:
                    continue
                if o in defined or o in outer:
                    probs.append(f"{where}: value '{o}' defined twice (or shadows an outer value)")
                defined.add(o)
        for o in g.output:
            if o.name not in defined and o.name not in outer:
                probs.append(f"{where}: graph output '{o.name}' has no producer")
        return defined

    graph(model.graph, set(), "graph")
    for f in model.functions:
        defined = set(f.input)
        if len(defined) != len(f.input):
            probs.append(f"function {f.name}: duplicate formal input")
        for n in f.node:
            for x in n.input:
                if x and x not in defined:
                    probs.append(f"function {f.name}: node {n.op_type} uses '{x}' before definition")
            for a in n.attribute:
                if a.type == onnx.AttributeProto.GRAPH:
                    graph(a.g, set(defined), f"function {f.name}/{n.op_type}.{a.name}")
            if n.domain not in ("", "ai.onnx"):
                g2 = fns.get((n.domain, n.op_type))
                if g2 is None:
                    probs.append(f"function {f.name}: call to undefined function {n.domain}::{n.op_type}")
                elif len(n.input) > len(g2.input) or len(n.output) > len(g2.output):
                    probs.append(f"function {f.name}: call {n.op_type} arity mismatch")
                fimp = {imp.domain or "" for imp in f.opset_import}
                if n.domain not in fimp and n.domain not in imports:
                    probs.append(f"function {f.name}: domain {n.domain!r} not imported")
            for o in n.output:
                if o and o in defined:
                    probs.append(f"function {f.name}: value '{o}' defined twice")
                if o:
                    defined.add(o)
        for o in f.output:
            if o not in defined:
                probs.append(f"function {f.name}: output '{o}' has no producer")
    return probs


def observations(model):
    """the property's own observation points (direct evaluation)"""
    fails = []
    try:
        onnx.checker.check_model(model, full_check=True)
    except Exception as e:
        fails.append("checker: " + str(e).replace("\n", " ")[:200])
    try:
        onnx.shape_inference.infer_shapes(model, strict_mode=True)
    except Exception as e:
        fails.append("strict shape inference: " + str(e).replace("\n", " ")[:200])
    try:
        import onnxruntime as ort

        so = ort.SessionOptions()
        so.log_severity_level = 4
        ort.InferenceSession(model.SerializeToString(), so, providers=["CPUExecutionProvider"])
    except Exception as e:
        fails.append("onnxruntime load: " + str(e).replace("\n", " ")[:200])
    return fails


def run_job(job, tier):
    ci, pid = job.split("|", 1)
    cfgs = CONFIGS_Q if tier == "quick" else CONFIGS_T
    cfg = cfgs[int(ci)]
    try:
        p = c01.get_program(pid)
    except corpus.OutOfBound:
        return {"job": job, "status": "out_of_bound"}
    p.config = dict(p.config, **cfg)
    try:
        model = pipeline.export(p)
    except Exception as e:
        return {"job": job, "status": "raised", "reason": f"{type(e).__name__}: {str(e)[:120]}"}
    out = {"job": job, "status": "proved", "config": cfg}
    declared = int(p.config.get("opset", 23))
    enc = structural(model) + [x for x in c11.schema_problems(model, declared) if "does not exist at opset" not in x and "declares default opset" not in x]
    obs = observations(model) if declared <= c11.ORT_MAX else []
    # not claimed: ONNX Runtime lacking a kernel for a valid ONNX node (double-precision Atan, ...)
    obs = [o for o in obs if not (o.startswith("onnxruntime load") and "NOT_IMPLEMENTED" in o)]
    # opset-availability defects are C11's: drop observations about operators C11 reports
    missing_ops = {x.split(": ", 1)[1].split(" ")[0] for x in c11.schema_problems(model, declared) if "does not exist at opset" in x}
    obs = [o for o in obs if not any(f"{op}" in o for op in missing_ops)]
    if enc and not obs and declared <= c11.ORT_MAX:
        return {"job": job, "status": "harness_error", "reason": "encoder refused a model that checker, strict inference and ORT accept: " + "; ".join(enc[:3])}
    if obs:
        cls = sorted({o.split(":")[0] for o in obs})
        out.update(status="violation", kind="malformed", witness={"why": "; ".join(obs[:3]), "encoder": enc[:3]}, cls=cls)
        return out
    # solver part: shape obligations for all bindings
    if any(isinstance(d, str) for shp, _ in p.specs for d in shp):
        try:
            sr = shapecheck.analyze_shapes(p, timeout_ms=4000 if tier == "quick" else 30000, check_annotations=False)
        except Exception as e:
            sr = {"status": "harness_error", "reason": str(e), "findings": [], "stats": {}}
        out["shape_mode"] = {"status": sr["status"], "stats": sr.get("stats"), "reason": sr.get("reason")}
        for f in sr.get("findings", []):
            if f["kind"] != "obligation":
                continue
            ok, info = shapecheck.replay_finding(p, sr["model"], f)
            if ok:
                out.update(status="violation", kind="shape_obligation", witness={"why": f["text"], "binding": f.get("binding"), **{k: v for k, v in info.items() if k != "shapes"}}, cls=["shape"])
                return out
        if sr["status"] in ("not_encodable", "inconclusive", "harness_error"):
            out["shape_mode_undecided"] = True
    return out


ASSUMPTIONS = [
    "solver content: operator shape/type obligations for all bindings of named dimensions (shape mode); structural well-formedness and schema availability are closed predicates evaluated by the encoder",
    "onnx.checker(full_check), strict shape inference and ORT session construction are run as direct observations on every model and as the replay of every encoder refusal",
    "ORT-specific load failures on models that are valid ONNX, and file mode, are not claimed; opset-availability defects are reported by C11",
]


def main(tier):
    t0 = time.time()
    results, crashed = runner.run_sharded("j2ov.checks.c03", tier)
    violations = []
    agg = {}
    for r in results:
        for k, v in ((r.get("shape_mode") or {}).get("stats") or {}).items():
            agg[k] = round(agg.get(k, 0) + v, 3)
        if r.get("status") == "violation":
            ci, pid = r["job"].split("|", 1)
            w = r.get("witness") or {}
            violations.append({"key": f"{common.finding_pid(pid)}|{r.get('kind')}|{','.join(r.get('cls') or [])}", "what": f"{pid} {r.get('config')}: {w.get('why')}", "payload": {"job": r["job"], "witness": w}})
    counts = {}
    for r in results:
        counts[r.get("status")] = counts.get(r.get("status"), 0) + 1
    decided = counts.get("proved", 0) + counts.get("violation", 0)
    sm = [r for r in results if r.get("shape_mode")]
    cov = {
        "programs": decided,
        "programs_enumerated": len(results),
        "disagreements_checked": len(violations),
        "samples": [{"model": r["job"], "config": r.get("config"), "status": r["status"], "shape_mode": (r.get("shape_mode") or {}).get("status")} for r in results if r.get("status") in ("proved", "violation")][:4] or [{"note": "none"}],
        "verdicts": counts,
        "shape_mode": {"models": len(sm), "proved_for_all_bindings": sum(1 for r in sm if r["shape_mode"]["status"] == "proved"), "queries": agg},
        "solver_s": agg.get("solver_s", 0),
        "configurations": CONFIGS_Q if tier == "quick" else CONFIGS_T,
        "worker_crashes": crashed,
    }
    return common.finish(PROP, tier, t0, level="translation_validation", coverage=cov, assumptions=ASSUMPTIONS, violations=violations, decided=decided)


if __name__ == "__main__":
    sys.exit(main(common.tier_from_env(sys.argv[1] if len(sys.argv) > 1 else None)))
