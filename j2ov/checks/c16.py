"""C16 - failure is loud: never a silently different or partial model.

(i) abort points: for every pass index k the real optimize_graph runs with pass k raising; with the
default policy the returned model must be equivalent to the callable for ALL inputs (C01's query);
with the strict setting the exception must propagate.  (ii) unsupported constructs at top level,
inside control-flow bodies and inside function bodies: `raises, or returns a model proved equivalent`."""
from __future__ import annotations

import functools
import os
import sys
import time

import numpy as np

from .. import corpus, families, pipeline, runner, jax_sem
from .. import sym as S
from . import common, c01

PROP = "C16"
JOB_TIMEOUT_S = {"quick": 150, "thorough": 600}
F32, I32 = np.float32, np.int32

ABORT_PROGRAMS_Q = [
    "G/A8/relu/in0/out0", "G/A8/add2/in01/out0", "G/A8/two_out/in0/out01", "G/A8/mean_hw_keep/in0/out-",
    "G/A1/mix.transpose", "G/A1/mix.reshape", "G/A1/jnp.astype_i32/f32_3", "G/A1/nn.silu/f32_3", "G/A4/flatten_BN",
    "G/A4/reshape_roundtrip_same", "G/A5/cond_pred_gt", "G/A5/scan_two_xs", "G/A6/module_pair/weights/u0/o0", "G/A1/mix.matmul",
    "G/A1/nn.softmax/f32_3",
]


def _npass():
    import jax2onnx.converter.ir_optimizations as iro

    return len(iro._OPTIMIZER_PASSES)


# ---- (ii) unsupported constructs ----------------------------------------------------------

_UNREG = {}


def _unregistered_primitive():
    if "p" in _UNREG:
        return _UNREG["p"]
    import jax
    from jax.extend import core as jcore
    from jax.interpreters import mlir

    p = jcore.Primitive("j2ov_unregistered")
    p.def_impl(lambda x: x * 2.0 + 1.0)
    p.def_abstract_eval(lambda x: jax.core.ShapedArray(x.shape, x.dtype))
    mlir.register_lowering(p, mlir.lower_fun(lambda x: x * 2.0 + 1.0, multiple_results=False))
    jax_sem.PRIMS["j2ov_unregistered"] = lambda ctx, eqn, ins: [S.map1(lambda a: S.f_add(S.f_mul(a, 2.0), 1.0), ins[0])]
    _UNREG["p"] = p
    return p


def loud_programs():
    import jax
    import jax.numpy as jnp
    from jax import lax
    from flax import nnx
    from jax2onnx import onnx_function

    prim = _unregistered_primitive()
    u = lambda x: prim.bind(x)

    @onnx_function
    class LoudBody(nnx.Module):
        def __init__(self, mode):
            self.mode = mode

        def __call__(self, x):
            if self.mode == "prim":
                return u(x) + 1.0
            if self.mode == "switch3":
                return lax.switch(jnp.int32(x[0] > 0) + jnp.int32(x[1] > 0), [lambda a: a + 1.0, lambda a: a * 2.0, lambda a: -a], x)
            if self.mode == "rev_scan":
                return lax.scan(lambda c, a: (c + a, c * a), 0.0, x, reverse=True)[1]
            return lax.fori_loop(0, jnp.int32(x[0] > 0) + 1, lambda i, a: a + 1.0, x)

    progs = {}
    P = functools.partial(pipeline.Program, pid="")
    mk = lambda fn, specs: pipeline.Program(pid="", fn=fn, specs=[(tuple(s), np.dtype(d)) for s, d in specs])
    sw3 = lambda i, a: lax.switch(i, [lambda v: v + 1.0, lambda v: v * 2.0, lambda v: -v], a)
    revscan = lambda xs: lax.scan(lambda c, a: (c + a, c * a), 0.0, xs, reverse=True)
    dynfori = lambda x, n: lax.fori_loop(0, n, lambda i, a: a + 1.0, x)
    progs["prim/top"] = mk(lambda x: u(x) - 1.0, [((3,), F32)])
    progs["prim/in_cond"] = mk(lambda x: lax.cond(x[0] > 0, lambda a: u(a), lambda a: a, x), [((3,), F32)])
    progs["prim/in_while"] = mk(lambda x: lax.while_loop(lambda s: s[0] < 3.0, lambda s: u(s), x), [((2,), F32)])
    progs["prim/in_scan"] = mk(lambda xs: lax.scan(lambda c, a: (u(c) + a, c), 0.0, xs), [((3,), F32)])
    progs["prim/in_function"] = mk(lambda x: LoudBody("prim")(x), [((3,), F32)])
    progs["prim/in_vmap"] = mk(jax.vmap(lambda x: u(x)), [((2, 3), F32)])
    progs["switch3/top"] = mk(sw3, [((), I32), ((2,), F32)])
    progs["switch3/in_cond"] = mk(lambda i, x: lax.cond(x[0] > 0, lambda a: sw3(i, a), lambda a: a, x), [((), I32), ((2,), F32)])
    progs["switch3/in_scan"] = mk(lambda i, xs: lax.scan(lambda c, a: (sw3(i, c) + a, c), jnp.zeros(2), xs), [((), I32), ((3, 2), F32)])
    progs["switch3/in_function"] = mk(lambda x: LoudBody("switch3")(x), [((3,), F32)])
    progs["rev_scan/top"] = mk(revscan, [((3,), F32)])
    progs["rev_scan/no_xs"] = mk(lambda x: lax.scan(lambda c, _: (c * 0.5 + 1.0, c * 2.0), x, None, length=3, reverse=True), [((2,), F32)])
    progs["rev_scan/no_xs_no_ys"] = mk(lambda x: lax.scan(lambda c, _: (c * 0.5 + 1.0, None), x, None, length=3, reverse=True)[0], [((2,), F32)])
    progs["rev_scan/two_xs"] = mk(lambda a, b: lax.scan(lambda c, ab: (c + ab[0] * ab[1], c), 0.0, (a, b), reverse=True), [((3,), F32), ((3,), F32)])
    progs["rev_scan/unroll2"] = mk(lambda xs: lax.scan(lambda c, a: (c + a, c * a), 0.0, xs, reverse=True, unroll=2), [((4,), F32)])
    progs["rev_cumsum/top"] = mk(lambda x: lax.cumsum(x, axis=0, reverse=True) + lax.cummax(x, axis=0, reverse=True), [((4,), F32)])
    progs["switch4/top"] = mk(lambda i, a: lax.switch(i, [lambda v: v + 1.0, lambda v: v * 2.0, lambda v: -v, lambda v: v * v], a), [((), I32), ((2,), F32)])
    progs["switch3/in_while"] = mk(lambda i, x: lax.while_loop(lambda s: s[0] < 2, lambda s: (s[0] + 1, sw3(i, s[1])), (jnp.int32(0), x))[1], [((), I32), ((2,), F32)])
    progs["dyn_fori/lower_dynamic"] = mk(lambda x, n: lax.fori_loop(n, 3, lambda i, a: a + 1.0, x), [((2,), F32), ((), I32)])
    progs["while_nonscalar_like/top"] = mk(lambda x: lax.while_loop(lambda s: jnp.all(s < 3.0), lambda s: s + 1.0, x), [((2,), F32)])
    progs["rev_scan/in_cond"] = mk(lambda xs: lax.cond(xs[0] > 0, lambda a: revscan(a)[1], lambda a: a, xs), [((3,), F32)])
    progs["rev_scan/in_function"] = mk(lambda x: LoudBody("rev_scan")(x), [((3,), F32)])
    progs["dyn_fori/top"] = mk(dynfori, [((2,), F32), ((), I32)])
    progs["dyn_fori/in_cond"] = mk(lambda x, n: lax.cond(x[0] > 0, lambda a: dynfori(a, n), lambda a: a, x), [((2,), F32), ((), I32)])
    progs["dyn_fori/in_function"] = mk(lambda x: LoudBody("dyn_fori")(x), [((3,), F32)])
    progs["dim_no_origin/top"] = mk(lambda x: x.sum() + jnp.ones(((x.shape[0] + 1) // 2,), x.dtype).sum(), [(("B", 2), F32)])
    progs["dim_no_origin/zeros"] = mk(lambda x: jnp.concatenate([x[:, 0], jnp.zeros((x.shape[0] * 2,), x.dtype)]), [(("B", 2), F32)])
    progs["dtype_unsupported/top"] = mk(lambda x: lax.nextafter(x, x + 1.0), [((3,), F32)])
    progs["gather_mode_fill/top"] = mk(lambda x, i: jnp.take(x, i, mode="fill", fill_value=7.0), [((4,), F32), ((2,), I32)])
    progs["sort_multi_operand/top"] = mk(lambda x, y: lax.sort((x, y), num_keys=1)[1], [((4,), F32), ((4,), F32)])
    progs["cumsum_reverse/top"] = mk(lambda x: lax.cumsum(x, reverse=True), [((4,), F32)])
    progs["reduce_precision/top"] = mk(lambda x: lax.reduce_precision(x, 5, 10), [((3,), F32)])
    # generic lax.reduce: only a reducer with ITS identity as init maps onto an ONNX Reduce* (which has no
    # init operand); anything else must be rejected or carried along
    red = lambda comp, init, dims: (lambda x: lax.reduce(x, np.float32(init), comp, dims))
    for nm, comp, inits in (("max", lax.max, (-np.inf, np.inf, 0.0, 2.5)), ("min", lax.min, (np.inf, -np.inf, 0.0, -2.5)),
                            ("add", lax.add, (0.0, 1.0, np.inf)), ("mul", lax.mul, (1.0, 0.0, 2.0))):
        for init in inits:
            tag = str(init).replace("-", "m").replace(".", "p")
            progs[f"reduce_{nm}_init_{tag}/top"] = mk(red(comp, init, (1,)), [((2, 3), F32)])
    progs["reduce_max_init_inf/in_cond"] = mk(lambda x: lax.cond(x[0, 0] > 0, lambda a: lax.reduce(a, np.float32(np.inf), lax.max, (0,)), lambda a: a[0], x), [((2, 3), F32)])
    progs["reduce_int_max_init_wrong/top"] = mk(lambda x: lax.reduce(x, np.int32(2147483647), lax.max, (0,)), [((3,), I32)])
    progs["reduce_int_min_init_wrong/top"] = mk(lambda x: lax.reduce(x, np.int32(-2147483648), lax.min, (0,)), [((3,), I32)])
    progs["reduce_window_max_init_zero/top"] = mk(lambda x: lax.reduce_window(x, 0.0, lax.max, (2,), (1,), "VALID"), [((4,), F32)])
    progs["reduce_window_add_init_one/top"] = mk(lambda x: lax.reduce_window(x, 1.0, lax.add, (2,), (1,), "VALID"), [((4,), F32)])
    progs["cummax_like_scan/top"] = mk(lambda x: lax.associative_scan(lax.max, x, reverse=True), [((4,), F32)])
    progs["argmax_index_dtype/top"] = mk(lambda x: lax.argmax(x, 0, np.int32) + lax.argmin(x, 0, np.int32), [((4,), F32)])
    progs["clamp_lo_gt_hi/top"] = mk(lambda x: lax.clamp(1.0, x, -1.0), [((3,), F32)])
    progs["top_k_zero/top"] = mk(lambda x: lax.top_k(x, 2)[1], [((4,), F32)])
    progs["round_even/top"] = mk(lambda x: lax.round(x, lax.RoundingMethod.TO_NEAREST_EVEN), [((3,), F32)])
    return progs


_LOUD = None


def loud():
    global _LOUD
    if _LOUD is None:
        _LOUD = loud_programs()
    return _LOUD


def list_jobs(tier):
    progs = ABORT_PROGRAMS_Q if tier == "quick" else ABORT_PROGRAMS_Q + families.ids("A8", "quick")[:30] + families.ids("A4", "quick")[:20] + families.ids("A7", "quick")[:20]
    jobs = [f"abort|{k}|{p}" for p in progs for k in range(_npass())]
    jobs += [f"strict|{k}|{ABORT_PROGRAMS_Q[k % len(ABORT_PROGRAMS_Q)]}" for k in range(_npass())]
    jobs += [f"loud|{name}" for name in sorted(loud())]
    return jobs


def options(tier):
    return pipeline.Options(timeout_ms=2500 if tier == "quick" else 30000, max_queries=32 if tier == "quick" else 128, unroll=4, max_unknown=1 if tier == "quick" else 2, budget_s=15.0 if tier == "quick" else 60.0)


class _Injected(RuntimeError):
    pass


def _with_raising_pass(k, fn):
    import jax2onnx.converter.ir_optimizations as iro

    orig = iro._OPTIMIZER_PASSES
    victim = orig[k]

    def boom(*a, **kw):
        raise _Injected(f"injected failure in pass {victim.name}")

    repl = iro._OptimizerPass(name=victim.name, model_runner=boom)
    iro._OPTIMIZER_PASSES = tuple(repl if i == k else p for i, p in enumerate(orig))
    try:
        return fn(), victim.name
    finally:
        iro._OPTIMIZER_PASSES = orig


def _checker_problem(model):
    import onnx

    try:
        onnx.checker.check_model(model, full_check=True)
    except Exception as e:
        return "checker: " + str(e).replace("\n", " ")[:220]
    try:
        onnx.shape_inference.infer_shapes(model, strict_mode=True)
    except Exception as e:
        return "strict shape inference: " + str(e).replace("\n", " ")[:220]
    return None


def _malformed_after_abort(prog, k):
    try:
        aborted, _ = _with_raising_pass(k, lambda: pipeline.export(prog))
    except Exception:
        return None
    why = _checker_problem(aborted)
    if not why:
        return None
    try:
        if _checker_problem(pipeline.export(prog)):
            return None  # the complete export is rejected as well: not an abort matter (C03)
    except Exception:
        return None
    return why


def run_job(job, tier):
    kind, rest = job.split("|", 1)
    if kind == "loud":
        prog = loud()[rest]
        prog.pid = "G/A9/" + rest
        r = pipeline.analyze(prog, options(tier))
        r["loud_kind"] = rest
        if r["status"] == "export_failed":
            r["status"] = "raised"  # the loud path
        return r
    k, pid = rest.split("|", 1)
    k = int(k)
    prog = c01.get_program(pid)
    if kind == "abort":
        r, name = _with_raising_pass(k, lambda: pipeline.analyze(prog, options(tier)))
        r["abort_pass"] = name
        r["abort_index"] = k
        if r["status"] == "export_failed" and "injected failure" not in str(r.get("reason")):
            # the program cannot be exported at all (its own, loud, failure): not an abort matter
            r["status"] = "raised"
            return r
        if r["status"] == "export_failed":
            # default policy must swallow optimizer failures
            r["status"] = "violation"
            r["kind"] = "abort_raises"
            r["witness"] = {"why": f"to_onnx raised with the default failure policy when pass {name} aborted: {r.get('reason')}"}
            return r
        if r["status"] != "violation":
            # "never a partial model": what comes back after the abort must still be a well-formed model
            # (a pass that stopped half way may leave annotations contradicting the nodes); judged only
            # when the un-aborted export of the same program is well-formed
            why = _malformed_after_abort(prog, k)
            if why:
                r["status"] = "violation"
                r["kind"] = "abort_malformed"
                r["witness"] = {"why": f"model returned after pass {name} aborted is rejected: {why}"}
        return r
    # strict: the exception must propagate
    os.environ["JAX2ONNX_STRICT_OPTIMIZER_FAILURES"] = "1"
    try:
        def attempt():
            try:
                pipeline.export(prog)
                return "returned"
            except _Injected:
                return "propagated"
            except Exception as e:
                return f"other:{type(e).__name__}: {str(e)[:100]}"

        res, name = _with_raising_pass(k, attempt)
    finally:
        os.environ.pop("JAX2ONNX_STRICT_OPTIMIZER_FAILURES", None)
    out = {"job": job, "abort_pass": name, "strict_result": res}
    if res == "propagated" or res.startswith("other"):
        out["status"] = "proved" if res == "propagated" else "inconclusive"
        out["reason"] = res
    else:
        out["status"] = "violation"
        out["kind"] = "strict_swallowed"
        out["witness"] = {"why": f"strict optimizer-failure setting did not re-raise the failure of pass {name}"}
    return out


ASSUMPTIONS = list(c01.ASSUMPTIONS) + [
    "abort granularity = pass boundaries (entry k of _OPTIMIZER_PASSES replaced by a raising runner; the real optimize_graph and failure policy execute); intra-pass aborts are outside the claim",
    "an export that raises satisfies the obligation for unsupported constructs; an export that returns must be proved equivalent",
]


def main(tier):
    t0 = time.time()
    results, crashed = runner.run_sharded("j2ov.checks.c16", tier)
    violations = []
    for r in results:
        if r.get("status") == "violation":
            job = r["job"]
            kind = job.split("|", 1)[0]
            if kind == "abort":
                key = f"abort|pass={r.get('abort_pass')}|{common.base_pid(job.split('|', 2)[2])}|{r.get('kind','value')}"
            elif kind == "strict":
                key = f"strict|pass={r.get('abort_pass')}"
            else:
                key = f"loud|{r.get('loud_kind')}|{r.get('kind','value')}"
            w = r.get("witness") or {}
            violations.append({"key": key, "what": f"{w.get('why') or w.get('what') or ''} inputs={str(w.get('inputs'))[:100]} jax={str(w.get('jax'))[:80]} ort={str(w.get('ort', w.get('ort_error')))[:80]}", "payload": {"job": job, "witness": w}})
    cov = c01.evidence_coverage([r for r in results if r.get("stats")], tier)
    cov["abort_points"] = _npass()
    cov["abort_jobs"] = sum(1 for r in results if r["job"].startswith("abort|"))
    cov["abort_proved"] = sum(1 for r in results if r["job"].startswith("abort|") and r.get("status") == "proved")
    cov["strict_propagated"] = sum(1 for r in results if r["job"].startswith("strict|") and r.get("strict_result") == "propagated")
    cov["unsupported_constructs"] = {r.get("loud_kind"): r.get("status") for r in results if r["job"].startswith("loud|")}
    cov["worker_crashes"] = crashed
    decided = cov["abort_proved"] + cov["strict_propagated"] + sum(1 for r in results if r["job"].startswith("loud|") and r.get("status") in ("raised", "proved"))
    cov["programs"] = max(cov.get("programs", 0), decided)
    return common.finish(PROP, tier, t0, level="translation_validation", coverage=cov, assumptions=ASSUMPTIONS, violations=violations, decided=decided)


if __name__ == "__main__":
    sys.exit(main(common.tier_from_env(sys.argv[1] if len(sys.argv) > 1 else None)))
