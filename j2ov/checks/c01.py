"""C01 - exported model == JAX callable, decided per output element by z3 (engine E2)."""
from __future__ import annotations

import sys
import time

from .. import corpus, pipeline, runner, families
from . import common

PROP = "C01"
JOB_TIMEOUT_S = {"quick": 45, "thorough": 400}


def list_jobs(tier):
    ids = corpus.registry_ids(include_f64=(tier == "thorough"))
    ids += families.ids("A1", tier) + families.ids("A2", tier)
    return ids


def options(tier):
    if tier == "thorough":
        return pipeline.Options(timeout_ms=30000, max_queries=256, unroll=8, ort_reject_is_violation=True)
    return pipeline.Options(timeout_ms=2500, max_queries=48, unroll=5, max_unknown=1, budget_s=20.0, ort_reject_is_violation=True)


def get_program(job):
    if job.startswith("R/"):
        return corpus.registry_program(job)
    return families.program(job)


def run_job(job, tier):
    from .. import onnx_sem, jax_sem

    # quick tier: programs with large constants / intermediates are outside the element bound
    onnx_sem.MAX_ELEMS = jax_sem.MAX_ELEMS = 6000 if tier == "quick" else 20000
    try:
        p = get_program(job)
    except corpus.OutOfBound as e:
        return {"job": job, "status": "out_of_bound", "reason": str(e)}
    r = pipeline.analyze(p, options(tier))
    return r


def collect(results, prop=PROP):
    violations = []
    for r in results:
        if r.get("status") == "violation":
            key = common.finding_pid(r["job"]) + "|" + str(r.get("kind", "value"))
            if r.get("kind") == "silent_out_of_bounds_index":
                # one defect per indexing primitive whose JAX clamp/fill semantics the lowering drops
                idx = sorted(p for p in (r.get("prims") or []) if p in ("dynamic_slice", "dynamic_update_slice", "gather", "scatter", "scatter-add", "scatter_add"))
                key = "oob_index|" + "+".join(idx)
            w = r.get("witness") or {}
            what = w.get("why") or w.get("what") or r.get("reason") or ""
            violations.append({"key": key, "what": f"{what}; inputs={str(w.get('inputs'))[:120]} jax={str(w.get('jax'))[:80]} ort={str(w.get('ort', w.get('ort_error')))[:80]}", "payload": {"job": r["job"], "witness": w, "stats": r.get("stats")}})
    return violations


def evidence_coverage(results, tier):
    counts, stats = common.summarize_e2(results)
    decided = [r for r in results if r.get("status") in ("proved", "violation")]
    samples = []
    for r in decided[:3] + [r for r in results if r.get("status") == "violation"][:3]:
        samples.append({"program": r["job"], "status": r["status"], "onnx_ops": r.get("ops"), "jax_prims": r.get("prims"), "queries": r.get("stats")})
    ops = sorted({o for r in decided for o in (r.get("ops") or [])})
    prims = sorted({o for r in decided for o in (r.get("prims") or [])})
    cov = {
        "programs": len(decided),
        "programs_enumerated": len(results),
        "disagreements_checked": sum(1 for r in results if r.get("status") in ("violation",) or r.get("spurious")),
        "samples": samples or [{"note": "no program decided"}],
        "verdicts": dict(counts),
        "queries": {k: (round(v, 2) if isinstance(v, float) else v) for k, v in stats.items()},
        "solver_s": round(stats.get("solver_s", 0.0), 2),
        "functions_encoded": {"onnx_ops": ops, "jax_primitives": prims},
        "bounds": {
            "per_query_timeout_ms": options(tier).timeout_ms,
            "max_distinct_queries_per_program": options(tier).max_queries,
            "loop_unroll": options(tier).unroll,
            "max_input_elements": options(tier).max_input_elems,
            "max_tensor_elements": 6000 if tier == "quick" else 20000,
            "symbol_binding": "every named dimension bound to 3 (C04 varies it)",
            "float_theory": "Real with shared uninterpreted transcendentals; comparator |a-b| > 1e-3(1+|b|)",
            "int_theory": "Int with explicit two's-complement wrap",
        },
        "not_encodable": sorted({(r.get("reason") or "")[:80] for r in results if r.get("status") == "not_encodable"})[:200],
        "inconclusive_programs": [r["job"] for r in results if r.get("status") in ("inconclusive", "partial", "timeout")][:300],
        "selfcheck_failed": [{"program": r["job"], "why": (r.get("reason") or "")[:120]} for r in results if r.get("status") == "selfcheck_failed"][:100],
        "self_validation": {"programs_checked": sum(1 for r in results if (r.get("selfcheck") or {}).get("checked")), "failed": sum(1 for r in results if r.get("status") == "selfcheck_failed")},
        "twins": "every solver batch contains a perturbed twin that must be sat",
        "harness_errors": [{"program": r["job"], "why": (r.get("reason") or "")[:160]} for r in results if r.get("status") in ("harness_error", "crashed")][:80],
        "timeouts": [r["job"] for r in results if r.get("status") == "timeout"][:80],
    }
    try:  # debugging aid (not evidence): per-job wall times of the last run
        import json, os

        os.makedirs("/verif/.work", exist_ok=True)
        json.dump([{"job": r.get("job"), "status": r.get("status"), "wall_s": r.get("wall_s"), "reason": (r.get("reason") or "")[:200]} for r in results], open(f"/verif/.work/last_results_{len(results)}.json", "w"))
    except Exception:
        pass
    return cov


ASSUMPTIONS = [
    "float inputs finite with |x| <= 2^16; no NaN/Inf inputs",
    "float arithmetic modelled over the reals; transcendental functions uninterpreted (shared by both sides after definitional unfolding); rounding/overflow outside the claim",
    "integer divisors nonzero; float->int casts in range; select_n selectors in range (JAX domain predicates)",
    "jax_sem / onnx_sem are my reading of the two specifications, cross-checked per program against JAX and ONNX Runtime on the repo's inputs and a boundary vector",
    "programs are enumerated (registry + generated families); only programs inside the operator vocabulary and element bounds are claimed",
    "every sat model is replayed on ONNX Runtime vs jax.core.eval_jaxpr of the un-patched reference before it is reported",
]


def main(tier):
    t0 = time.time()
    results, crashed = runner.run_sharded("j2ov.checks.c01", tier)
    violations = collect(results)
    cov = evidence_coverage(results, tier)
    cov["worker_crashes"] = crashed
    decided = cov["programs"]
    return common.finish(PROP, tier, t0, level="translation_validation", coverage=cov, assumptions=ASSUMPTIONS, violations=violations, decided=decided)


if __name__ == "__main__":
    sys.exit(main(common.tier_from_env(sys.argv[1] if len(sys.argv) > 1 else None)))
