"""Development helper: run the C01 pipeline over the whole registry and histogram."""
from . import corpus, pipeline

JOB_TIMEOUT_S = {"quick": 60, "thorough": 300}


def list_jobs(tier):
    return corpus.registry_ids()


def run_job(job, tier):
    try:
        p = corpus.registry_program(job)
    except corpus.OutOfBound as e:
        return {"job": job, "status": "out_of_bound", "reason": str(e)}
    r = pipeline.analyze(p)
    r.pop("witness", None) if r.get("status") != "violation" else None
    return r
