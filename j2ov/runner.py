"""Sharded job runner: N worker subprocesses, each imports the check module, lists the
same deterministic job list and handles its stride; results are JSON lines.

A worker that makes no progress on one job for longer than the job timeout + grace
(native code that ignores SIGALRM: an ORT Loop that never exits, a solver call) is killed
and restarted after that job, which is recorded as `timeout` (inconclusive, never a pass).
"""
from __future__ import annotations

import importlib
import json
import os
import signal
import subprocess
import sys
import tempfile
import time

PY = "/verif/.venv/bin/python"


class JobTimeout(Exception):
    pass


def _alarm(signum, frame):
    raise JobTimeout()


def _job_timeout(mod, tier):
    jt = getattr(mod, "JOB_TIMEOUT_S", None)
    if isinstance(jt, dict):
        return int(jt.get(tier, 120))
    if isinstance(jt, (int, float)):
        return int(jt)
    return 120


def worker_main(argv):
    modname, shard, nshards, outfile, tier, start = argv[0], int(argv[1]), int(argv[2]), argv[3], argv[4], int(argv[5])
    import logging

    logging.disable(logging.WARNING)
    mod = importlib.import_module(modname)
    jobs = mod.list_jobs(tier)
    mine = jobs[shard::nshards]
    per_job = _job_timeout(mod, tier)
    signal.signal(signal.SIGALRM, _alarm)
    with open(outfile, "a") as f:
        for k in range(start, len(mine)):
            job = mine[k]
            f.write(json.dumps({"_start": k, "job": job, "t": time.time()}) + "\n")
            f.flush()
            t0 = time.time()
            signal.alarm(per_job)
            try:
                res = mod.run_job(job, tier)
            except JobTimeout:
                res = {"job": job, "status": "timeout"}
            except BaseException as e:  # noqa
                import traceback

                res = {"job": job, "status": "harness_error", "reason": f"{type(e).__name__}: {e}"[:300], "tb": traceback.format_exc()[-1200:]}
            finally:
                signal.alarm(0)
            res.setdefault("job", job)
            res.setdefault("wall_s", round(time.time() - t0, 3))
            f.write(json.dumps(res, default=str) + "\n")
            f.flush()
        f.write(json.dumps({"_done": True}) + "\n")


def _spawn(modname, i, nproc, out, tier, start, env, logpath):
    log = open(logpath, "a")
    p = subprocess.Popen(
        [PY, "-m", "j2ov.runner", modname, str(i), str(nproc), out, tier, str(start)],
        stdout=log,
        stderr=subprocess.STDOUT,
        env=env,
        cwd="/verif",
    )
    return p, log


def _scan(out):
    """-> (results, last_start (k, job, t) or None, done)"""
    results, last, done = [], None, False
    if not os.path.exists(out):
        return results, last, done
    with open(out) as f:
        for line in f:
            line = line.strip()
            if not line:
                continue
            try:
                d = json.loads(line)
            except Exception:
                continue
            if "_start" in d:
                last = (d["_start"], d["job"], d["t"])
            elif d.get("_done"):
                done = True
            else:
                results.append(d)
                last = None
    return results, last, done


def run_sharded(modname, tier, nproc=None, job_timeout=None, grace=45):
    nproc = nproc or int(os.environ.get("J2OV_NPROC", min(16, os.cpu_count() or 4)))
    os.makedirs("/verif/.work", exist_ok=True)
    d = tempfile.mkdtemp(prefix="run_", dir="/verif/.work")
    env = dict(os.environ)
    env.setdefault("JAX_PLATFORMS", "cpu")
    env["PYTHONPATH"] = "/verif" + (":" + env["PYTHONPATH"] if env.get("PYTHONPATH") else "")
    env.setdefault("XLA_FLAGS", "--xla_cpu_multi_thread_eigen=false intra_op_parallelism_threads=1")
    env.setdefault("OMP_NUM_THREADS", "1")
    env.setdefault("PYTHONHASHSEED", "0")
    if job_timeout is None:
        try:
            job_timeout = _job_timeout(importlib.import_module(modname), tier)
        except Exception:
            job_timeout = 120
    state = {}
    for i in range(nproc):
        out = os.path.join(d, f"shard{i}.jsonl")
        logpath = os.path.join(d, f"shard{i}.log")
        p, log = _spawn(modname, i, nproc, out, tier, 0, env, logpath)
        state[i] = {"p": p, "log": log, "out": out, "logpath": logpath, "restarts": 0, "extra": [], "spawn_t": time.time()}
    crashed = []
    active = set(state)
    while active:
        time.sleep(0.5)
        for i in list(active):
            s = state[i]
            rc = s["p"].poll()
            results, last, done = _scan(s["out"])
            if last is not None and last[0] < s.get("resume_from", 0):
                last = None
            if rc is not None:
                s["log"].close()
                if done:
                    active.discard(i)
                    continue
                # died mid-job (native crash): record and resume after the job
                if last is not None and s["restarts"] < 50:
                    s["extra"].append({"job": last[1], "status": "crashed", "reason": f"worker exit code {rc}"})
                    s["restarts"] += 1
                    s["resume_from"] = last[0] + 1
                    s["p"], s["log"] = _spawn(modname, i, nproc, s["out"], tier, last[0] + 1, env, s["logpath"])
                    s["spawn_t"] = time.time()
                else:
                    tail = ""
                    try:
                        tail = open(s["logpath"]).read()[-800:]
                    except Exception:
                        pass
                    crashed.append({"shard": i, "rc": rc, "log_tail": tail})
                    active.discard(i)
                continue
            if last is not None and time.time() - max(last[2], s["spawn_t"]) > job_timeout + grace:
                s["p"].kill()
                s["p"].wait()
                s["log"].close()
                s["extra"].append({"job": last[1], "status": "timeout", "reason": "worker killed: no progress (native code)"})
                s["restarts"] += 1
                s["resume_from"] = last[0] + 1
                s["p"], s["log"] = _spawn(modname, i, nproc, s["out"], tier, last[0] + 1, env, s["logpath"])
                s["spawn_t"] = time.time()
    results = []
    for i, s in state.items():
        r, _, _ = _scan(s["out"])
        results.extend(r)
        results.extend(s["extra"])
    import shutil

    shutil.rmtree(d, ignore_errors=True)
    return results, crashed


if __name__ == "__main__":
    worker_main(sys.argv[1:])
