"""A6: function-boundary programs (@onnx_function on plain functions and nnx modules), call-site
pairs that differ in exactly one of {weights, static field, kwarg, shape, dtype, instance}."""
import functools

import numpy as np

F32, I32 = np.float32, np.int32


def register(reg, P):
    def mk(name, builder, specs, tier="quick", **kw):
        def build():
            fn = builder()
            return P(fn, specs, **kw)

        reg("A6", name, build, tier=tier)

    # ---- plain functions: must be module-level attributes (the plugin patches module.<name>) ----
    g = globals()
    if "f_plain_once_u0" not in g:
        _define_plain_functions()
    for unique in (False, True):
        u = "u1" if unique else "u0"
        mk(f"plain_once/{u}", (lambda u: (lambda: (lambda x: g[f"f_plain_once_{u}"](x) + 1.0)))(u), [((3,), F32)])
        mk(f"two_calls_same/{u}", (lambda u: (lambda: (lambda x, y: g[f"f_two_same_{u}"](x) - g[f"f_two_same_{u}"](y))))(u), [((3,), F32), ((3,), F32)])
        for order in (0, 1):
            def b_shape(u=u, order=order):
                import jax.numpy as jnp

                f = lambda a: g[f"f_two_shape_{u}"](a)
                if order == 0:
                    return lambda x, y: f(x) + jnp.sum(f(y))
                return lambda x, y: jnp.sum(f(y)) + f(x)

            mk(f"two_calls_shape/{u}/o{order}", b_shape, [((3,), F32), ((2, 3), F32)])

            def b_kw(u=u, order=order):
                f = lambda a, **k: g[f"f_kwarg_{u}"](a, **k)
                if order == 0:
                    return lambda x: f(x, alpha=0.1) + f(x, alpha=0.3)
                return lambda x: f(x, alpha=0.3) * 2.0 + f(x, alpha=0.1)

            mk(f"kwarg_static/{u}/o{order}", b_kw, [((3,), F32)])
        mk(f"two_calls_dtype/{u}", (lambda u: (lambda: (lambda x, i: (g[f"f_two_dtype_{u}"](x), g[f"f_two_dtype_{u}"](i)))))(u), [((3,), F32), ((3,), I32)])
        mk(f"kwarg_traced/{u}", (lambda u: (lambda: (lambda x, y: g[f"f_kw_traced_{u}"](x, y=y) - g[f"f_kw_traced_{u}"](y, y=x))))(u), [((3,), F32), ((3,), F32)])
        C1 = np.array([1.0, 2.0, 3.0], dtype=np.float32)
        C2 = np.array([10.0, -20.0, 30.0], dtype=np.float32)
        I1, I2 = np.array([0, 2], dtype=np.int32), np.array([1, 1], dtype=np.int32)
        mk(f"const_operand_row/{u}", (lambda u: (lambda: (lambda x: g[f"f_add_row_{u}"](x, C1) - g[f"f_add_row_{u}"](x * 2.0, C2))))(u), [((2, 3), F32)])
        mk(f"const_operand_row_jnp/{u}", (lambda u: (lambda: (lambda x: g[f"f_add_row_{u}"](x, __import__("jax.numpy", fromlist=["x"]).asarray(C1)) * g[f"f_add_row_{u}"](x, __import__("jax.numpy", fromlist=["x"]).asarray(C2)))))(u), [((2, 3), F32)])
        mk(f"const_operand_scale/{u}", (lambda u: (lambda: (lambda x: g[f"f_scale_by_{u}"](x, C1) + g[f"f_scale_by_{u}"](x, C2))))(u), [((2, 3), F32)])
        mk(f"const_operand_index/{u}", (lambda u: (lambda: (lambda x: g[f"f_take_const_{u}"](x, I1) + g[f"f_take_const_{u}"](x, I2))))(u), [((2, 3), F32)])
        mk(f"const_then_runtime/{u}", (lambda u: (lambda: (lambda x, r: g[f"f_add_row_{u}"](x, C1) + g[f"f_add_row_{u}"](x, r))))(u), [((2, 3), F32), ((3,), F32)])
        mk(f"identity_body/{u}", (lambda u: (lambda: (lambda x: g[f"f_identity_{u}"](x) + 1.0)))(u), [((3,), F32)])
        mk(f"identity_body_is_output/{u}", (lambda u: (lambda: (lambda x: g[f"f_identity_{u}"](x))))(u), [((3,), F32)])
        mk(f"passthrough_output/{u}", (lambda u: (lambda: (lambda x, y: g[f"f_passthrough_pair_{u}"](x, y))))(u), [((3,), F32), ((3,), F32)])
        mk(f"nested/{u}", (lambda u: (lambda: (lambda x: g[f"f_outer_{u}"](x) * g[f"f_inner_{u}"](x + 1.0))))(u), [((3,), F32)])
        # same function instantiated inside another function AND at top level / in a sibling, with
        # different signatures (name/identifier allocation across scopes), in both orders
        mk(f"nested_then_top_diffsig/{u}", (lambda u: (lambda: (lambda t, e: (g[f"f_encoder_{u}"](t), g[f"f_scale_feat_{u}"](e)))))(u), [((2, 4), F32), ((2, 2), F32)])
        mk(f"top_then_nested_diffsig/{u}", (lambda u: (lambda: (lambda t, e: (g[f"f_scale_feat_{u}"](e), g[f"f_encoder_{u}"](t)))))(u), [((2, 4), F32), ((2, 2), F32)])
        mk(f"nested_siblings_diffsig/{u}", (lambda u: (lambda: (lambda t, e: (g[f"f_encoder_{u}"](t), g[f"f_encoder2_{u}"](e)))))(u), [((2, 4), F32), ((2, 2), F32)])
        mk(f"nested_then_top_samesig/{u}", (lambda u: (lambda: (lambda t, e: (g[f"f_encoder_{u}"](t), g[f"f_scale_feat_{u}"](e)))))(u), [((2, 3), F32), ((2, 3), F32)])
        mk(f"nested_then_top_symbolic/{u}", (lambda u: (lambda: (lambda t, e: (g[f"f_encoder_{u}"](t), g[f"f_scale_feat_{u}"](e)))))(u), [(("B", 4), F32), (("B", 2), F32)])

    # ---- nnx modules ----------------------------------------------------------------
    def module_pair(unique, differ, order):
        def b():
            import jax.numpy as jnp
            from flax import nnx
            from jax2onnx import onnx_function

            class Affine(nnx.Module):
                def __init__(self, w, k=1.0, mode="id"):
                    self.w = nnx.Param(jnp.asarray(w, dtype=jnp.float32))
                    self.k = k
                    self.mode = mode

                def __call__(self, x):
                    y = x * self.w[...] * self.k
                    return jnp.tanh(y) if self.mode == "tanh" else y

            Affine.__name__ = Affine.__qualname__ = f"Affine_{differ}_{'u1' if unique else 'u0'}_o{order}"
            Affine = onnx_function(Affine, unique=unique)

            if differ == "weights":
                m1, m2 = Affine([1.0, 2.0, 3.0]), Affine([0.5, -1.0, 4.0])
            elif differ == "static_float":
                m1, m2 = Affine([1.0, 2.0, 3.0], k=2.0), Affine([1.0, 2.0, 3.0], k=3.0)
            elif differ == "static_str":
                m1, m2 = Affine([1.0, 2.0, 3.0], mode="id"), Affine([1.0, 2.0, 3.0], mode="tanh")
            elif differ == "instance_equal_state":
                m1, m2 = Affine([1.0, 2.0, 3.0]), Affine([1.0, 2.0, 3.0])
            elif differ == "bool_vs_int":
                m1, m2 = Affine([1.0, 2.0, 3.0], k=True), Affine([1.0, 2.0, 3.0], k=1)
            else:  # same instance twice
                m1 = m2 = Affine([1.0, 2.0, 3.0], k=2.0)
            if order == 0:
                return lambda x, y: m1(x) - m2(y)
            return lambda x, y: m2(y) * 2.0 + m1(x)

        return b

    for unique in (False, True):
        u = "u1" if unique else "u0"
        for differ in ("weights", "static_float", "static_str", "instance_equal_state", "same_instance", "bool_vs_int"):
            for order in (0, 1):
                mk(f"module_pair/{differ}/{u}/o{order}", module_pair(unique, differ, order), [((3,), F32), ((3,), F32)], tier="quick" if order == 0 or differ in ("weights", "static_float") else "thorough")

    def module_nested(unique):
        def b():
            import jax.numpy as jnp
            from flax import nnx
            from jax2onnx import onnx_function

            class Inner(nnx.Module):
                def __init__(self, s):
                    self.s = nnx.Param(jnp.asarray(s, dtype=jnp.float32))

                def __call__(self, x):
                    return x + self.s[...]

            Inner.__name__ = Inner.__qualname__ = f"Inner_{'u1' if unique else 'u0'}"
            Inner = onnx_function(Inner, unique=unique)

            class Outer(nnx.Module):
                def __init__(self):
                    self.a = Inner([1.0, 0.0, -1.0])
                    self.b = Inner([0.5, 0.5, 0.5])

                def __call__(self, x):
                    return self.a(x) * self.b(x)

            Outer.__name__ = Outer.__qualname__ = f"OuterNested_{'u1' if unique else 'u0'}"
            Outer = onnx_function(Outer, unique=unique)
            m = Outer()
            return lambda x: m(x) - 1.0

        return b

    def module_param_flag():
        def b():
            import jax.numpy as jnp
            from flax import nnx
            from jax2onnx import onnx_function

            @onnx_function
            class Gate(nnx.Module):
                def __init__(self):
                    self.drop = nnx.Dropout(rate=0.5, rngs=nnx.Rngs(0))

                def __call__(self, x, deterministic=True):
                    return self.drop(x * 2.0, deterministic=deterministic) + 1.0

            m = Gate()
            return lambda x, deterministic=True: m(x, deterministic=deterministic)

        return b

    def tied_blocks(unique, differ, order):
        """two blocks inside an outer nnx.Module with TIED weights (same rng seed): only the static
        configuration (bool / float / str / int) differs between the call sites"""
        def b():
            import jax.numpy as jnp
            from flax import nnx
            from jax2onnx import onnx_function

            class TiedBlock(nnx.Module):
                def __init__(self, dim, *, residual, scale, act, reps, rngs):
                    self.linear = nnx.Linear(dim, dim, rngs=rngs)
                    self.residual = residual
                    self.scale = scale
                    self.act = act
                    self.reps = reps

                def __call__(self, x):
                    y = self.linear(x)
                    for _ in range(self.reps):
                        y = jnp.tanh(y) if self.act == "tanh" else jnp.sin(y)
                    y = y * self.scale
                    return x + y if self.residual else y

            # one registry entry per family member: the plugin registry is keyed by qualified name
            TiedBlock.__name__ = TiedBlock.__qualname__ = f"TiedBlock_{differ}_{'u1' if unique else 'u0'}_o{order}"
            TiedBlock = onnx_function(TiedBlock, unique=unique)

            class Outer(nnx.Module):
                def __init__(self):
                    cfg_a = dict(residual=True, scale=1.0, act="tanh", reps=1)
                    cfg_b = dict(cfg_a)
                    if differ == "bool":
                        cfg_b["residual"] = False
                    elif differ == "float":
                        cfg_b["scale"] = 0.25
                    elif differ == "str":
                        cfg_b["act"] = "sin"
                    elif differ == "int":
                        cfg_b["reps"] = 2
                    self.a = TiedBlock(3, rngs=nnx.Rngs(0), **cfg_a)
                    self.b = TiedBlock(3, rngs=nnx.Rngs(0), **cfg_b)

                def __call__(self, x):
                    return self.b(self.a(x)) if order == 0 else self.a(self.b(x))

            return Outer()

        return b

    for unique in (False, True):
        for differ in ("bool", "float", "str", "int", "none"):
            for order in (0, 1):
                mk(f"tied_blocks/{differ}/{'u1' if unique else 'u0'}/o{order}", tied_blocks(unique, differ, order), [((2, 3), F32)], tier="quick" if order == 0 else "thorough")
    for unique in (False, True):
        mk(f"module_nested/{'u1' if unique else 'u0'}", module_nested(unique), [((3,), F32)])
    mk("module_param_flag", module_param_flag(), [((3,), F32)], input_params={"deterministic": True})


def _define_plain_functions():
    import jax
    import jax.numpy as jnp
    from jax2onnx import onnx_function

    g = globals()

    def install(name, fn, unique):
        fn.__name__ = name
        fn.__qualname__ = name
        fn.__module__ = __name__
        g[name] = fn
        g[name] = onnx_function(fn, unique=unique)

    for unique in (False, True):
        u = "u1" if unique else "u0"

        def plain_once(x):
            return jnp.sin(x) * 2.0 + x

        def two_same(x):
            return jnp.tanh(x) * x

        def two_shape(x):
            return jnp.sum(x * x, axis=-1)

        def two_dtype(x):
            return x * 3 // 2 if jnp.issubdtype(x.dtype, jnp.integer) else x * 1.5

        def kwarg(x, alpha=0.1):
            return jax.nn.leaky_relu(x, alpha)

        def kw_traced(x, y=None):
            return x * y + 1.0

        def inner(x):
            return jnp.exp(-x * x)

        def outer(x, _u=u):
            return globals()[f"f_inner_{_u}"](x) + globals()[f"f_inner_{_u}"](x * 2.0)

        install(f"f_plain_once_{u}", plain_once, unique)
        install(f"f_two_same_{u}", two_same, unique)
        install(f"f_two_shape_{u}", two_shape, unique)
        install(f"f_two_dtype_{u}", two_dtype, unique)
        install(f"f_kwarg_{u}", kwarg, unique)
        install(f"f_kw_traced_{u}", kw_traced, unique)
        install(f"f_inner_{u}", inner, unique)
        install(f"f_outer_{u}", outer, unique)

        def scale_feat(x):
            w = jnp.arange(1, x.shape[-1] + 1, dtype=x.dtype)
            return jnp.tanh(x) * w

        def encoder(x, _u=u):
            return globals()[f"f_scale_feat_{_u}"](x) + 1.0

        def encoder2(x, _u=u):
            return globals()[f"f_scale_feat_{_u}"](x * 2.0) - globals()[f"f_scale_feat_{_u}"](x)

        # operands that are compile-time constants in the CALLER and differ per call site: a body that
        # folds them (broadcast / reshape / pad lowerings peek at constants) must not be shared
        def add_row(x, row):
            return x + jnp.broadcast_to(row, x.shape)

        def scale_by(x, s):
            return x * jnp.reshape(s, (1, -1)) + jnp.sum(s)

        def take_const(x, idx):
            return jnp.take(x, idx, axis=1)

        def identity_fn(x):
            return x

        def passthrough_pair(x, y):
            return y, x + 1.0

        install(f"f_identity_{u}", identity_fn, unique)
        install(f"f_passthrough_pair_{u}", passthrough_pair, unique)
        install(f"f_add_row_{u}", add_row, unique)
        install(f"f_scale_by_{u}", scale_by, unique)
        install(f"f_take_const_{u}", take_const, unique)
        install(f"f_scale_feat_{u}", scale_feat, unique)
        install(f"f_encoder_{u}", encoder, unique)
        install(f"f_encoder2_{u}", encoder2, unique)
