"""A8: conv-free 4-D programs exported with every subset of inputs_as_nchw / outputs_as_nchw."""
import functools
import itertools

import numpy as np

F32 = np.float32
SH = (2, 3, 4, 5)  # N,H,W,C pairwise distinct


def register(reg, P):
    import jax
    import jax.numpy as jnp

    scale = np.arange(1, 6, dtype=np.float32) / 4.0
    bodies = {
        "relu": (lambda x: jax.nn.relu(x), 1, 1),
        "affine": (lambda x: x * scale + 1.0, 1, 1),
        "add2": (lambda x, y: x + y, 2, 1),
        "residual": (lambda x: x + jnp.tanh(x) * 0.5, 1, 1),
        "mean_hw_keep": (lambda x: jnp.mean(x, axis=(1, 2), keepdims=True), 1, 1),
        "sum_c": (lambda x: jnp.sum(x, axis=3), 1, 1),
        "two_out": (lambda x: (jax.nn.relu(x), x * 2.0), 1, 2),
        "two_out_shared": (lambda x: (jnp.abs(x), jnp.abs(x) + 1.0), 1, 2),
        "two_in_two_out": (lambda x, y: (x * y, x - y), 2, 2),
        "transpose_inside": (lambda x: jnp.transpose(x, (0, 2, 1, 3)) * 2.0, 1, 1),
        "reshape_inside": (lambda x: jnp.reshape(x, (2, 12, 5)).sum(axis=1), 1, 1),
        "max_pool_like": (lambda x: jnp.max(x, axis=(1, 2)), 1, 1),
        "mixed_rank": (lambda x, v: x * v, (SH, (5,)), 1),
        "identity": (lambda x: x, 1, 1),
        # axis-carrying operators on an otherwise elementwise path between the two boundary transposes:
        # the transposes may only cancel around operators that are layout-invariant
        "softmax_c": (lambda x: jax.nn.softmax(x * 2.0, axis=-1), 1, 1),
        "softmax_w": (lambda x: jax.nn.softmax(x, axis=2) + 1.0, 1, 1),
        "softmax_h_two": (lambda x, y: jax.nn.softmax(x + y, axis=1), 2, 1),
        "log_softmax_c": (lambda x: jax.nn.log_softmax(jnp.tanh(x), axis=3), 1, 1),
        "cumsum_w": (lambda x: jnp.cumsum(jnp.abs(x), axis=2), 1, 1),
        "flip_h": (lambda x: jnp.flip(x, axis=1) * 2.0, 1, 1),
        "cummax_c": (lambda x: jax.lax.cummax(x, axis=3), 1, 1),
        "normalize_c": (lambda x: x / (jnp.sum(jnp.abs(x), axis=3, keepdims=True) + 1.0), 1, 1),
        "softplus_sign": (lambda x: jax.nn.softplus(x) * jax.nn.soft_sign(x), 1, 1),
        # the flagged input itself is ALSO returned (un-flagged) next to a result of a unary chain: the
        # boundary transpose then has a graph output hanging off it and must survive transpose folding
        "passthrough_and_unary": (lambda x: (x, jax.nn.relu(x)), 1, 2),
        "passthrough_and_chain": (lambda x: (x, jnp.tanh(jnp.abs(x)) * 1.0), 1, 2),
        "unary_and_passthrough": (lambda x: (jnp.exp(x), x), 1, 2),
        "slice_hw": (lambda x: x[:, 1:, :2, :], 1, 1),
        "concat_c": (lambda x, y: jnp.concatenate([x, y], axis=3), 2, 1),
    }
    for name, (fn, nin, nout) in bodies.items():
        if isinstance(nin, tuple):
            shapes = list(nin)
            n4 = [0]
        else:
            shapes = [SH] * nin
            n4 = list(range(nin))
        specs = [(s, F32) for s in shapes]
        in_sets = [c for r in range(len(n4) + 1) for c in itertools.combinations(n4, r)]
        out_ok = list(range(nout)) if name not in ("sum_c", "reshape_inside", "max_pool_like") else []
        out_sets = [c for r in range(len(out_ok) + 1) for c in itertools.combinations(out_ok, r)]
        for ins in in_sets:
            for outs in out_sets:
                if not ins and not outs:
                    continue
                cfg = {}
                if ins:
                    cfg["inputs_as_nchw"] = list(ins)
                if outs:
                    cfg["outputs_as_nchw"] = list(outs)
                tier = "quick" if (len(ins) <= 1 and len(outs) <= 1) or name in ("two_in_two_out", "add2", "passthrough_and_unary", "passthrough_and_chain", "unary_and_passthrough") else "thorough"
                reg("A8", f"{name}/in{''.join(map(str, ins)) or '-'}/out{''.join(map(str, outs)) or '-'}", functools.partial(P, fn, specs, config=cfg), tier=tier)
    # symbolic spatial dims: lowering that needs the RUNTIME extent of H/W/C after the NCHW bridge
    def bc_mean(x):
        return jnp.broadcast_to(jnp.mean(x, axis=(1, 2), keepdims=True), x.shape) + x

    def bc_two(x, y):
        return (jnp.broadcast_to(jnp.mean(x, axis=(1, 2), keepdims=True), x.shape) * y, jnp.broadcast_to(jnp.sum(y, axis=(0, 1, 3), keepdims=True), y.shape) - x)

    def flat_hw(x):
        return x.reshape(x.shape[0], x.shape[1] * x.shape[2], x.shape[3]).sum(axis=1)

    bind = {"B": 2, "H": 3, "W": 4}
    for nm, fn, nin in (("bc_mean", bc_mean, 1), ("bc_two", bc_two, 2), ("flat_hw", flat_hw, 1)):
        for ins in ([0], [1], [0, 1]):
            if max(ins) >= nin:
                continue
            for outs in ([], [0]):
                if nm == "flat_hw" and outs:
                    continue
                cfg = {"inputs_as_nchw": ins}
                if outs:
                    cfg["outputs_as_nchw"] = outs
                reg("A8", f"sym_hw/{nm}/in{''.join(map(str, ins))}/out{''.join(map(str, outs)) or '-'}", functools.partial(P, fn, [(("B", "H", "W", 5), F32)] * nin, config=cfg, bindings=bind))
    # symbolic batch
    reg("A8", "sym_batch/relu/in0/out0", functools.partial(P, lambda x: jax.nn.relu(x) + 1.0, [(("B", 3, 4, 5), F32)], config={"inputs_as_nchw": [0], "outputs_as_nchw": [0]}))
    reg("A8", "sym_batch/mean/in0", functools.partial(P, lambda x: jnp.mean(x, axis=(1, 2)), [(("B", 3, 4, 5), F32)], config={"inputs_as_nchw": [0]}))
