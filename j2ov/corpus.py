"""Program sources: the repo's registered testcases (R) and generated families (G)."""
from __future__ import annotations

import os
import sys

import numpy as np

from .pipeline import Program

_REG = None


def _load_registry():
    global _REG
    if _REG is not None:
        return _REG
    if "/repo" not in sys.path:
        sys.path.insert(0, "/repo")
    import logging

    logging.disable(logging.WARNING)
    from tests import t_generator as tg  # the repo's own enumeration of its testcases

    entries = tg.load_plugin_metadata()
    params = []
    for e in entries:
        try:
            params.extend(tg.generate_test_params(e))
        except Exception:
            continue
    _REG = params
    return params


def _callable_of(tp, x64):
    import jax
    import jax.numpy as jnp

    fac = tp.get("callable_factory") or tp.get("_callable_factory_ref")
    if fac is not None and hasattr(fac, "with_dtype"):
        obj = fac.with_dtype(jnp.float64 if x64 else jnp.float32)
    elif fac is not None:
        obj = fac(jnp.float64 if x64 else jnp.float32)
    else:
        obj = tp["callable"]
    if hasattr(obj, "instantiate"):
        prev = bool(jax.config.jax_enable_x64)
        if prev != x64:
            jax.config.update("jax_enable_x64", x64)
        try:
            obj = obj.instantiate()
        finally:
            if prev != x64:
                jax.config.update("jax_enable_x64", prev)
    return obj


def registry_ids(include_f64=False):
    ids = []
    for i, tp in enumerate(_load_registry()):
        x64 = bool(tp.get("_enable_double_precision_test_setting", False))
        if x64 and not include_f64:
            continue
        ids.append(f"R/{tp.get('context','?')}/{tp.get('component','?')}/{tp['testcase']}#{i}")
    return ids


# operand index -> "inc" (non-decreasing) / "sinc" (strictly increasing): validity predicates the
# library documents for these functions (jnp.searchsorted: "a: sorted array"; digitize/histogram: monotonic
# bins; interp: increasing xp).  Outside them JAX's binary search and the exported counting lowering
# legitimately differ.
SORTED_INPUTS = {
    "searchsorted": {0: "inc"},
    "digitize": {1: "inc"},
    "histogram": {1: "inc"},
    "histogram2d": {2: "inc", 3: "inc"},
    "histogramdd": {1: "inc", 2: "inc"},
    "interp": {1: "sinc"},
}


class OutOfBound(Exception):
    pass


def registry_program(pid, max_input_elems=4096) -> Program:
    i = int(pid.rsplit("#", 1)[1])
    tp = _load_registry()[i]
    x64 = bool(tp.get("_enable_double_precision_test_setting", False))
    shapes = tp.get("input_shapes")
    dtypes = tp.get("input_dtypes")
    values = tp.get("input_values")
    specs = []
    if shapes is not None:
        if dtypes is None:
            dtypes = [np.float32] * len(shapes)
        for s, d in zip(shapes, dtypes):
            specs.append((tuple(s), np.dtype(d)))
    elif values is not None:
        for v in values:
            v = np.asarray(v)
            dt = v.dtype
            if dt == np.float64 and not x64:
                dt = np.dtype(np.float32)
            specs.append((tuple(v.shape), dt))
    else:
        specs = []  # zero-argument callable
    n = 0
    for shp, _ in specs:
        m = 1
        for d in shp:
            m *= 3 if isinstance(d, str) else int(d)
        n += m
    if max_input_elems is not None and n > max_input_elems:
        raise OutOfBound(f"{n} input elements")
    fn = _callable_of(tp, x64)
    cfg = {"opset": int(tp.get("opset_version", 23))}
    if x64:
        cfg["enable_double_precision"] = True
    for k in ("inputs_as_nchw", "outputs_as_nchw"):
        if tp.get(k):
            cfg[k] = list(tp[k])
    if tp.get("normalization_mode"):
        cfg["normalization_mode"] = tp["normalization_mode"]
    meta = {"context": tp.get("context"), "component": tp.get("component"), "testcase": tp["testcase"]}
    srt = SORTED_INPUTS.get(tp.get("component"))
    if srt:
        # documented precondition of the library function: this operand is monotonic
        meta["sorted_inputs"] = {i: ("dec" if "decreasing" in tp["testcase"] else m) for i, m in srt.items()}
    prog = Program(
        pid=pid,
        fn=fn,
        specs=specs,
        config=cfg,
        input_params=dict(tp.get("input_params") or {}),
        input_values=[np.asarray(v) for v in values] if values is not None else None,
        meta=meta,
    )
    return prog
