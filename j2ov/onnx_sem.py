"""Interpreter for ONNX ModelProto over symbolic tensors (value mode).

Semantics are written from the ONNX operator specification; the same kernels run on
concrete Python values for self-validation against ONNX Runtime.
"""
from __future__ import annotations

import itertools
import math

import numpy as np
import onnx
import z3
from onnx import helper, numpy_helper

from . import sym as S
from .sym import T, NotEncodable, DomainError

MAX_ELEMS = 20000


def np_dtype_of(elem_type: int):
    if elem_type == onnx.TensorProto.BFLOAT16:
        import ml_dtypes

        return np.dtype(ml_dtypes.bfloat16)
    try:
        return np.dtype(helper.tensor_dtype_to_np_dtype(elem_type))
    except Exception as e:  # pragma: no cover
        raise NotEncodable(f"onnx dtype {elem_type}") from e


def tensor_to_T(tp: onnx.TensorProto) -> T:
    arr = numpy_helper.to_array(tp)
    if arr.size > MAX_ELEMS:
        raise NotEncodable(f"constant with {arr.size} elements")
    dt = np_dtype_of(tp.data_type)
    return S.from_numpy(arr, dt)


class Ctx:
    """Evaluation context: collects domain assumptions, runtime obligations, notes."""

    def __init__(self, opset: int, functions=None, unroll=8):
        self.opset = opset
        self.functions = functions or {}
        self.obligations = []  # (z3 Bool that must hold, description)
        self.domain = []  # domain predicates contributed by ONNX ops that mirror JAX ones (casts)
        self.fresh = itertools.count()
        self.unroll = unroll
        self.unwind = []  # unwinding assumptions (not alive after K iterations)
        self.notes = []
        self.ops_seen = set()
        self.trace = None  # optional dict name -> T for all values (top-level)
        self.unknown_elementwise_as_uf = False
        self.rand_counter = itertools.count()
        self.stochastic = False
        self.cur_node = None
        self.declared = {}  # value name -> list of dims (int or None) from value_info

    def fresh_real(self, tag):
        return z3.Real(f"__oob_{tag}_{next(self.fresh)}")

    def fresh_val(self, tag, kind):
        n = next(self.fresh)
        if kind == "f":
            return z3.Real(f"__oob_{tag}_{n}")
        if kind == "i":
            return z3.Int(f"__oob_{tag}_{n}")
        return z3.Bool(f"__oob_{tag}_{n}")


def _attrs(node):
    out = {}
    for a in node.attribute:
        if a.type == onnx.AttributeProto.GRAPH:
            out[a.name] = a.g
        elif a.type == onnx.AttributeProto.GRAPHS:
            out[a.name] = list(a.graphs)
        elif a.type == onnx.AttributeProto.TENSOR:
            out[a.name] = a.t
        else:
            out[a.name] = helper.get_attribute_value(a)
    return out


def _s(v):
    return v.decode() if isinstance(v, bytes) else v


def _check_size(t: T):
    if t.size > MAX_ELEMS:
        raise NotEncodable(f"tensor with {t.size} elements")
    return t


# --------------------------------------------------------------------------- op table

OPS = {}


def op(*names):
    def deco(fn):
        for n in names:
            OPS[n] = fn
        return fn

    return deco


def _unary_float(fn):
    def impl(ctx, ins, at):
        x = ins[0]
        if x.kind != "f":
            raise NotEncodable("float op on non-float")
        return [S.map1(fn, x)]

    return impl


for _name, _fn in {
    "Sqrt": S.f_sqrt,
    "Exp": S.f_exp,
    "Log": S.f_log,
    "Tanh": S.f_tanh,
    "Sin": lambda a: S.f_un("sin", a),
    "Cos": lambda a: S.f_un("cos", a),
    "Tan": S.f_tan,
    "Asin": lambda a: S.f_un("asin", a),
    "Acos": lambda a: S.f_un("acos", a),
    "Atan": lambda a: S.f_un("atan", a),
    "Sinh": S.f_sinh,
    "Cosh": S.f_cosh,
    "Asinh": lambda a: S.f_un("asinh", a),
    "Acosh": lambda a: S.f_un("acosh", a),
    "Atanh": lambda a: S.f_un("atanh", a),
    "Erf": lambda a: S.f_un("erf", a),
    "Floor": S.f_floor,
    "Ceil": S.f_ceil,
    "Round": S.f_round_even,
    "Reciprocal": lambda a: S.f_div(1.0, a),
    "Sigmoid": S.f_logistic,
    "Softplus": lambda a: S.f_log(S.f_add(S.f_exp(a), 1.0)),
    "Softsign": lambda a: S.f_div(a, S.f_add(1.0, S.f_abs(a))),
    "Mish": lambda a: S.f_mul(a, S.f_tanh(S.f_log(S.f_add(S.f_exp(a), 1.0)))),
}.items():
    OPS[_name] = _unary_float(_fn)


@op("Relu")
def _relu(ctx, ins, at):
    x = ins[0]
    if x.kind == "f":
        return [S.map1(lambda a: S.f_max(a, 0.0), x)]
    return [S.map1(lambda a: S.i_max(a, 0), x)]


@op("LeakyRelu")
def _leaky(ctx, ins, at):
    alpha = float(at.get("alpha", 0.01))
    return [S.map1(lambda a: S.ite(S.c_lt(a, 0.0, "f"), S.f_mul(alpha, a), a, "f"), ins[0])]


@op("PRelu")
def _prelu(ctx, ins, at):
    x, s = ins
    return [S.map2(lambda a, sl: S.ite(S.c_lt(a, 0.0, "f"), S.f_mul(sl, a), a, "f"), x, s, x.dtype)]


@op("ThresholdedRelu")
def _trelu(ctx, ins, at):
    alpha = float(at.get("alpha", 1.0))
    return [S.map1(lambda a: S.ite(S.c_gt(a, alpha, "f"), a, 0.0, "f"), ins[0])]


@op("Elu")
def _elu(ctx, ins, at):
    alpha = float(at.get("alpha", 1.0))
    return [S.map1(lambda a: S.ite(S.c_lt(a, 0.0, "f"), S.f_mul(alpha, S.f_expm1(a)), a, "f"), ins[0])]


@op("Selu")
def _selu(ctx, ins, at):
    alpha = float(at.get("alpha", 1.67326319217681884765625))
    gamma = float(at.get("gamma", 1.05070102214813232421875))
    return [
        S.map1(
            lambda a: S.ite(
                S.c_gt(a, 0.0, "f"),
                S.f_mul(gamma, a),
                S.f_mul(gamma, S.f_sub(S.f_mul(alpha, S.f_exp(a)), alpha)),
                "f",
            ),
            ins[0],
        )
    ]


@op("Celu")
def _celu(ctx, ins, at):
    alpha = float(at.get("alpha", 1.0))
    return [
        S.map1(
            lambda a: S.f_add(
                S.f_max(0.0, a), S.f_min(0.0, S.f_mul(alpha, S.f_expm1(S.f_div(a, alpha))))
            ),
            ins[0],
        )
    ]


@op("HardSigmoid")
def _hsig(ctx, ins, at):
    alpha = float(at.get("alpha", 0.2))
    beta = float(at.get("beta", 0.5))
    return [S.map1(lambda a: S.f_max(0.0, S.f_min(1.0, S.f_add(S.f_mul(alpha, a), beta))), ins[0])]


@op("HardSwish")
def _hswish(ctx, ins, at):
    return [
        S.map1(
            lambda a: S.f_mul(a, S.f_max(0.0, S.f_min(1.0, S.f_add(S.f_mul(1.0 / 6.0, a), 0.5)))),
            ins[0],
        )
    ]


@op("Swish")
def _swish(ctx, ins, at):
    alpha = float(at.get("alpha", 1.0))
    return [S.map1(lambda a: S.f_mul(a, S.f_logistic(S.f_mul(alpha, a))), ins[0])]


def gelu_elem(a, approximate):
    if approximate == "tanh":
        inner = S.f_mul(
            math.sqrt(2.0 / math.pi), S.f_add(a, S.f_mul(0.044715, S.f_mul(a, S.f_mul(a, a))))
        )
        return S.f_mul(S.f_mul(0.5, a), S.f_add(1.0, S.f_tanh(inner)))
    return S.f_mul(S.f_mul(0.5, a), S.f_add(1.0, S.f_un("erf", S.f_div(a, math.sqrt(2.0)))))


@op("Gelu")
def _gelu(ctx, ins, at):
    approx = _s(at.get("approximate", "none"))
    return [S.map1(lambda a: gelu_elem(a, approx), ins[0])]


@op("Neg")
def _neg(ctx, ins, at):
    return [S.neg(ins[0])]


@op("Abs")
def _abs(ctx, ins, at):
    x = ins[0]
    if x.kind == "f":
        return [S.map1(S.f_abs, x)]
    return [S.map1(lambda a: S.i_abs(a, x.dtype), x)]


@op("Sign")
def _sign(ctx, ins, at):
    x = ins[0]
    if x.kind == "f":
        return [S.map1(S.f_sign, x)]
    return [S.map1(lambda a: S.i_sign(a, x.dtype), x)]


@op("Not")
def _not(ctx, ins, at):
    return [S.map1(S.b_not, ins[0])]


@op("And")
def _and(ctx, ins, at):
    return [S.map2(S.b_and, ins[0], ins[1], np.bool_)]


@op("Or")
def _or(ctx, ins, at):
    return [S.map2(S.b_or, ins[0], ins[1], np.bool_)]


@op("Xor")
def _xor(ctx, ins, at):
    return [S.map2(S.b_xor, ins[0], ins[1], np.bool_)]


def _int_only(ins, opname):
    for t in ins:
        if t.kind != "i":
            raise ModelInvalid(f"{opname}: operand of type {t.dtype} (integer tensor required)")


@op("BitwiseAnd")
def _bitand(ctx, ins, at):
    _int_only(ins, "BitwiseAnd")
    _same_type(ins, "BitwiseAnd")
    return [S.map2(lambda a, b: S.i_bit("and", a, b, ins[0].dtype), ins[0], ins[1], ins[0].dtype)]


@op("BitwiseOr")
def _bitor(ctx, ins, at):
    _int_only(ins, "BitwiseOr")
    _same_type(ins, "BitwiseOr")
    return [S.map2(lambda a, b: S.i_bit("or", a, b, ins[0].dtype), ins[0], ins[1], ins[0].dtype)]


@op("BitwiseXor")
def _bitxor(ctx, ins, at):
    _int_only(ins, "BitwiseXor")
    _same_type(ins, "BitwiseXor")
    return [S.map2(lambda a, b: S.i_bit("xor", a, b, ins[0].dtype), ins[0], ins[1], ins[0].dtype)]


@op("BitwiseNot")
def _bitnot(ctx, ins, at):
    _int_only(ins, "BitwiseNot")
    return [S.map1(lambda a: S.i_not(a, ins[0].dtype), ins[0])]


@op("BitShift")
def _bitshift(ctx, ins, at):
    _int_only(ins, "BitShift")
    _same_type(ins, "BitShift")
    if np.dtype(ins[0].dtype).kind != "u":
        raise ModelInvalid(f"BitShift: operand of type {ins[0].dtype} (unsigned integer tensor required)")
    d = _s(at["direction"])
    if d not in ("LEFT", "RIGHT"):
        raise ModelInvalid("BitShift direction")
    kind = "left" if d == "LEFT" else "right_logical"
    bits = np.dtype(ins[0].dtype).itemsize * 8

    def f(a, n):
        if not S.is_sym(n) and int(n) >= bits:
            raise DomainError("BitShift by >= width (undefined in C++)")
        if S.is_sym(n):
            ctx.domain.append(n < bits)
        return S.i_shift(kind, a, n, ins[0].dtype)

    return [S.map2(f, ins[0], ins[1], ins[0].dtype)]


def _same_type(ins, opname):
    dts = {t.dtype for t in ins}
    if len(dts) != 1:
        raise ModelInvalid(f"{opname}: operand element types differ {sorted(map(str, dts))}")


class ModelInvalid(Exception):
    """The model violates the ONNX specification (type/shape constraint, missing input...)."""


@op("Add")
def _add(ctx, ins, at):
    _same_type(ins, "Add")
    if ins[0].kind == "b":
        raise ModelInvalid("Add on bool")
    return [S.add(ins[0], ins[1])]


@op("Sub")
def _sub(ctx, ins, at):
    _same_type(ins, "Sub")
    return [S.sub(ins[0], ins[1])]


@op("Mul")
def _mul(ctx, ins, at):
    _same_type(ins, "Mul")
    if ins[0].kind == "b":
        raise ModelInvalid("Mul on bool")
    return [S.mul(ins[0], ins[1])]


@op("Div")
def _div(ctx, ins, at):
    _same_type(ins, "Div")
    x, y = ins
    if x.kind == "f":
        return [S.map2(S.f_div, x, y, x.dtype)]

    def d(a, b):
        if S.is_sym(b):
            ctx.domain.append(b != 0)
        return S.i_div_trunc(a, b, x.dtype)

    return [S.map2(d, x, y, x.dtype)]


@op("Mod")
def _mod(ctx, ins, at):
    _same_type(ins, "Mod")
    x, y = ins
    fmod = int(at.get("fmod", 0))
    if x.kind == "f":
        if not fmod:
            raise ModelInvalid("Mod fmod=0 on floats")
        return [S.map2(S.f_fmod, x, y, x.dtype)]

    def d(a, b):
        if S.is_sym(b):
            ctx.domain.append(b != 0)
        return (S.i_rem_trunc if fmod else S.i_mod_floor)(a, b, x.dtype)

    return [S.map2(d, x, y, x.dtype)]


@op("Pow")
def _pow(ctx, ins, at):
    x, y = ins
    if x.kind == "f":
        if y.kind == "f":
            return [S.map2(S.f_pow, x, y, x.dtype)]
        if y.is_concrete():
            return [S.map2(lambda a, b: S.f_ipow(a, int(b)), x, y, x.dtype)]
        return [S.map2(lambda a, b: S.f_pow(a, z3.ToReal(b) if S.is_sym(b) else float(b)), x, y, x.dtype)]
    if y.is_concrete() and y.kind in "if":
        def p(a, b):
            if float(b) != int(b):
                raise NotEncodable("int ** fractional")
            return S.i_pow(a, int(b), x.dtype)

        return [S.map2(p, x, y, x.dtype)]
    raise NotEncodable("integer Pow with symbolic exponent")


@op("Max")
def _max(ctx, ins, at):
    _same_type(ins, "Max")
    r = ins[0]
    for t in ins[1:]:
        r = S.maximum(r, t)
    return [r]


@op("Min")
def _min(ctx, ins, at):
    _same_type(ins, "Min")
    r = ins[0]
    for t in ins[1:]:
        r = S.minimum(r, t)
    return [r]


@op("Sum")
def _sum(ctx, ins, at):
    r = ins[0]
    for t in ins[1:]:
        r = S.add(r, t)
    return [r]


@op("Mean")
def _mean(ctx, ins, at):
    r = ins[0]
    for t in ins[1:]:
        r = S.add(r, t)
    n = float(len(ins))
    return [S.map1(lambda a: S.f_div(a, n), r)]


for _n, _c in {
    "Equal": "eq",
    "Less": "lt",
    "Greater": "gt",
    "LessOrEqual": "le",
    "GreaterOrEqual": "ge",
}.items():

    def _mk(c, n):
        def impl(ctx, ins, at):
            _same_type(ins, n)
            if n != "Equal" and ins[0].kind == "b":
                raise ModelInvalid(f"{n} on bool")
            return [S.compare(c, ins[0], ins[1])]

        return impl

    OPS[_n] = _mk(_c, _n)


@op("Where")
def _where(ctx, ins, at):
    c, x, y = ins
    if c.kind != "b":
        raise ModelInvalid("Where condition not bool")
    _same_type([x, y], "Where")
    return [S.where(c, x, y)]


@op("Clip")
def _clip(ctx, ins, at):
    x = ins[0]
    lo = ins[1] if len(ins) > 1 and ins[1] is not None else None
    hi = ins[2] if len(ins) > 2 and ins[2] is not None else None
    if "min" in at:
        lo = S.full((), float(at["min"]), x.dtype)
    if "max" in at:
        hi = S.full((), float(at["max"]), x.dtype)
    r = x
    # ONNX reference: np.clip == minimum(maximum(x, lo), hi)
    if lo is not None:
        r = S.maximum(r, lo)
    if hi is not None:
        r = S.minimum(r, hi)
    return [r]


@op("IsNaN")
def _isnan(ctx, ins, at):
    return [S.map1(lambda a: (isinstance(a, float) and math.isnan(a)) if not S.is_sym(a) else False, ins[0], np.bool_)]


@op("IsInf")
def _isinf(ctx, ins, at):
    dn = int(at.get("detect_negative", 1))
    dp = int(at.get("detect_positive", 1))

    def f(a):
        if S.is_sym(a):
            return False
        a = float(a)
        return (dp and a == math.inf) or (dn and a == -math.inf)

    return [S.map1(lambda a: bool(f(a)), ins[0], np.bool_)]


@op("Cast")
def _cast(ctx, ins, at):
    dst = np_dtype_of(int(at["to"]))
    return [S.cast(ins[0], dst, ctx.domain)]


@op("CastLike")
def _castlike(ctx, ins, at):
    return [S.cast(ins[0], ins[1].dtype, ctx.domain)]


@op("Identity")
def _identity(ctx, ins, at):
    return [ins[0]]


@op("Dropout")
def _dropout(ctx, ins, at):
    x = ins[0]
    training = False
    if len(ins) > 2 and ins[2] is not None:
        tm = ins[2]
        if not tm.is_concrete():
            raise NotEncodable("Dropout with symbolic training_mode")
        training = bool(tm.a.reshape(-1)[0])
    if training:
        ratio = 0.5
        if len(ins) > 1 and ins[1] is not None:
            if not ins[1].is_concrete():
                raise NotEncodable("Dropout with symbolic ratio")
            ratio = float(ins[1].a.reshape(-1)[0])
        if ratio != 0.0:
            raise NotEncodable("Dropout in training mode (stochastic)")
    return [x, S.full(x.shape, True, np.bool_)]


# --------------------------------------------------------------------------- structural

def _ints(t: T):
    return t.ints()


@op("Reshape")
def _reshape(ctx, ins, at):
    x, shp = ins
    if shp.dtype != np.int64:
        raise ModelInvalid("Reshape shape must be int64")
    allowzero = int(at.get("allowzero", 0))
    target = _ints(shp)
    out = []
    for i, d in enumerate(target):
        if d == 0 and not allowzero:
            if i >= x.ndim:
                raise ModelInvalid("Reshape: 0 dim beyond input rank")
            out.append(x.shape[i])
        else:
            out.append(d)
    if out.count(-1) > 1:
        raise ModelInvalid("Reshape: more than one -1")
    if -1 in out:
        known = 1
        for d in out:
            if d != -1:
                known *= d
        if known == 0 or x.size % known:
            raise ModelInvalid(f"Reshape: cannot infer -1 for {x.shape}->{target}")
        out[out.index(-1)] = x.size // known
    if int(np.prod(out)) != x.size:
        raise ModelInvalid(f"Reshape: {x.shape} -> {target} element count mismatch")
    return [T(x.dtype, x.a.reshape(out))]


@op("Transpose")
def _transpose(ctx, ins, at):
    x = ins[0]
    perm = at.get("perm")
    if perm is None:
        perm = list(range(x.ndim))[::-1]
    perm = [int(p) for p in perm]
    if sorted(perm) != list(range(x.ndim)):
        raise ModelInvalid(f"Transpose perm {perm} invalid for rank {x.ndim}")
    return [T(x.dtype, np.transpose(x.a, perm))]


@op("Concat")
def _concat(ctx, ins, at):
    _same_type(ins, "Concat")
    axis = int(at["axis"])
    nd = ins[0].ndim
    if not (-nd <= axis < nd):
        raise ModelInvalid("Concat axis out of range")
    try:
        return [T(ins[0].dtype, np.concatenate([t.a for t in ins], axis=axis))]
    except ValueError as e:
        raise ModelInvalid(f"Concat: {e}")


@op("Squeeze")
def _squeeze(ctx, ins, at):
    x = ins[0]
    axes = at.get("axes")
    if len(ins) > 1 and ins[1] is not None:
        axes = _ints(ins[1])
    if axes is None:
        axes = [i for i, d in enumerate(x.shape) if d == 1]
    axes = [int(a) % x.ndim for a in axes] if x.ndim else []
    for a in axes:
        if x.shape[a] != 1:
            raise ModelInvalid(f"Squeeze axis {a} of shape {x.shape}")
    return [T(x.dtype, np.squeeze(x.a, axis=tuple(axes)) if axes else x.a)]


@op("Unsqueeze")
def _unsqueeze(ctx, ins, at):
    x = ins[0]
    axes = at.get("axes")
    if len(ins) > 1 and ins[1] is not None:
        axes = _ints(ins[1])
    if axes is None:
        raise ModelInvalid("Unsqueeze without axes")
    nd = x.ndim + len(axes)
    axes = sorted(int(a) % nd for a in axes)
    if len(set(axes)) != len(axes):
        raise ModelInvalid("Unsqueeze duplicate axes")
    a = x.a
    for ax in axes:
        a = np.expand_dims(a, ax)
    return [T(x.dtype, a)]


@op("Flatten")
def _flatten(ctx, ins, at):
    x = ins[0]
    axis = int(at.get("axis", 1))
    if axis < 0:
        axis += x.ndim
    lead = int(np.prod(x.shape[:axis])) if axis > 0 else 1
    return [T(x.dtype, x.a.reshape(lead, -1) if x.size else x.a.reshape(lead, 0))]


@op("Expand")
def _expand(ctx, ins, at):
    x, shp = ins
    target = tuple(_ints(shp))
    try:
        out_shape = np.broadcast_shapes(x.shape, target)
    except ValueError:
        raise ModelInvalid(f"Expand: {x.shape} to {target}")
    return [_check_size(T(x.dtype, np.broadcast_to(x.a, out_shape).copy()))]


@op("Tile")
def _tile(ctx, ins, at):
    x, reps = ins
    r = _ints(reps)
    if len(r) != x.ndim:
        raise ModelInvalid("Tile repeats rank mismatch")
    return [_check_size(T(x.dtype, np.tile(x.a, r)))]


@op("Shape")
def _shape(ctx, ins, at):
    x = ins[0]
    start = int(at.get("start", 0))
    end = at.get("end")
    dims = list(x.shape)
    n = len(dims)
    if start < 0:
        start += n
    start = min(max(start, 0), n)
    if end is None:
        end = n
    else:
        end = int(end)
        if end < 0:
            end += n
        end = min(max(end, 0), n)
    return [S.from_numpy(np.array(dims[start:end], dtype=np.int64))]


@op("Size")
def _size(ctx, ins, at):
    return [S.from_numpy(np.array(ins[0].size, dtype=np.int64))]


@op("Constant")
def _constant(ctx, ins, at):
    if "value" in at:
        return [tensor_to_T(at["value"])]
    if "value_float" in at:
        return [S.from_numpy(np.array(at["value_float"], dtype=np.float32))]
    if "value_int" in at:
        return [S.from_numpy(np.array(at["value_int"], dtype=np.int64))]
    if "value_floats" in at:
        return [S.from_numpy(np.array(at["value_floats"], dtype=np.float32))]
    if "value_ints" in at:
        return [S.from_numpy(np.array(at["value_ints"], dtype=np.int64))]
    raise NotEncodable("Constant form")


@op("ConstantOfShape")
def _cos(ctx, ins, at):
    shp = tuple(_ints(ins[0]))
    if any(d < 0 for d in shp):
        raise ModelInvalid("ConstantOfShape negative dim")
    if "value" in at:
        v = tensor_to_T(at["value"])
        return [_check_size(S.full(shp, v.a.reshape(-1)[0], v.dtype))]
    return [_check_size(S.full(shp, 0.0, np.float32))]


@op("Range")
def _range(ctx, ins, at):
    st, lim, de = ins
    _same_type(ins, "Range")
    if not (st.is_concrete() and lim.is_concrete() and de.is_concrete()):
        raise NotEncodable("Range with symbolic operands")
    s, l, d = st.a.reshape(-1)[0], lim.a.reshape(-1)[0], de.a.reshape(-1)[0]
    if d == 0:
        raise ModelInvalid("Range delta 0")
    n = max(int(math.ceil((l - s) / d)), 0)
    if st.kind == "i":
        vals = [S.wrap(int(s) + i * int(d), st.dtype) for i in range(n)]
    else:
        vals = [float(s) + i * float(d) for i in range(n)]
    out = np.empty((n,), dtype=object)
    for i, v in enumerate(vals):
        out[i] = v
    return [_check_size(T(st.dtype, out))]


def _slice_symbolic(ctx, ins, at):
    """Slice with symbolic starts/ends (dynamic_slice lowering): the extent along each sliced axis
    is taken from the declared output shape; the obligation is that ONNX's clamped [start, end)
    really has that extent (otherwise the runtime shape contradicts the declaration)."""
    x = ins[0]
    starts, ends = list(ins[1].a.reshape(-1)), list(ins[2].a.reshape(-1))
    axes = _ints(ins[3]) if len(ins) > 3 and ins[3] is not None else list(range(len(starts)))
    steps = _ints(ins[4]) if len(ins) > 4 and ins[4] is not None else [1] * len(starts)
    if any(st != 1 for st in steps):
        raise NotEncodable("symbolic Slice with step != 1")
    node = ctx.cur_node
    decl = ctx.declared.get(node.output[0]) if node is not None else None
    if decl is None or len(decl) != x.ndim:
        raise NotEncodable("symbolic Slice without a declared output shape")
    cur = x.a
    k = x.kind
    for s, e, ax in zip(starts, ends, axes):
        ax %= x.ndim
        d = cur.shape[ax]
        if not S.is_sym(s) and not S.is_sym(e):
            s2 = int(s) + d if int(s) < 0 else int(s)
            e2 = int(e) + d if int(e) < 0 else int(e)
            s2, e2 = min(max(s2, 0), d), min(max(e2, 0), d)
            sl = [slice(None)] * cur.ndim
            sl[ax] = slice(s2, e2)
            cur = cur[tuple(sl)]
            continue
        L = decl[ax]
        if not isinstance(L, int):
            raise NotEncodable("symbolic Slice with unknown declared extent")
        S_ = S.to_z3_int(s)
        E_ = S.to_z3_int(e)
        sn = z3.If(S_ < 0, S_ + d, S_)
        en = z3.If(E_ < 0, E_ + d, E_)
        sc = z3.If(sn < 0, 0, z3.If(sn > d, d, sn))
        ec = z3.If(en < 0, 0, z3.If(en > d, d, en))
        ctx.obligations.append((ec - sc == L, f"Slice extent along axis {ax} equals the declared {L}"))
        moved = np.moveaxis(cur, ax, 0)
        out = np.empty((L,) + moved.shape[1:], dtype=object)
        hi = max(d - L, 0)
        for j in range(L):
            for rr in np.ndindex(*moved.shape[1:]) if moved.shape[1:] else [()]:
                r = moved[(min(hi + j, d - 1),) + rr] if d else None
                for st in range(hi - 1, -1, -1):
                    r = S.ite(sc == st, moved[(st + j,) + rr], r, k)
                out[(j,) + rr] = r
        cur = np.moveaxis(out, 0, ax)
    return [T(x.dtype, cur)]


@op("Slice")
def _slice(ctx, ins, at):
    x = ins[0]
    if len(ins) > 2 and (not ins[1].is_concrete() or not ins[2].is_concrete()):
        return _slice_symbolic(ctx, ins, at)
    if len(ins) > 1:
        starts = _ints(ins[1])
        ends = _ints(ins[2])
        axes = _ints(ins[3]) if len(ins) > 3 and ins[3] is not None else list(range(len(starts)))
        steps = _ints(ins[4]) if len(ins) > 4 and ins[4] is not None else [1] * len(starts)
    else:
        starts, ends = list(at["starts"]), list(at["ends"])
        axes = list(at.get("axes", range(len(starts))))
        steps = [1] * len(starts)
    if not (len(starts) == len(ends) == len(axes) == len(steps)):
        raise ModelInvalid("Slice operand lengths differ")
    sl = [slice(None)] * x.ndim
    seen = set()
    for s, e, ax, st in zip(starts, ends, axes, steps):
        if not (-x.ndim <= ax < x.ndim):
            raise ModelInvalid("Slice axis out of range")
        ax %= x.ndim
        if ax in seen:
            raise ModelInvalid("Slice repeated axis")
        seen.add(ax)
        if st == 0:
            raise ModelInvalid("Slice step 0")
        d = x.shape[ax]
        # ONNX clamping rules
        if s < 0:
            s += d
        if e < 0:
            e += d
        if st > 0:
            s = min(max(s, 0), d)
            e = min(max(e, 0), d)
        else:
            s = min(max(s, 0), d - 1)
            e = min(max(e, -1), d - 1)
            if e == -1:
                e = None
        sl[ax] = slice(s, e, st)
    return [T(x.dtype, x.a[tuple(sl)])]


def _select_by_index(ctx, cands, idx, kind, what):
    """cands: list of elements along an axis (len n); idx element (int, maybe symbolic).
    ONNX semantics: idx in [-n, n-1]; negative wraps; otherwise runtime error (obligation)."""
    n = len(cands)
    if not S.is_sym(idx):
        i = int(idx)
        if not (-n <= i < n):
            raise ModelInvalid(f"{what}: constant index {i} out of range for size {n}")
        return cands[i]
    ctx.obligations.append((z3.And(idx >= -n, idx < n), f"{what} index in range"))
    r = ctx.fresh_val("gather", kind)
    for i in range(n - 1, -1, -1):
        r = S.ite(z3.Or(idx == i, idx == i - n), cands[i], r, kind)
    return r


@op("Gather")
def _gather(ctx, ins, at):
    x, ind = ins
    if ind.kind != "i":
        raise ModelInvalid("Gather indices not integer")
    axis = int(at.get("axis", 0))
    if not (-x.ndim <= axis < x.ndim):
        raise ModelInvalid("Gather axis out of range")
    axis %= x.ndim
    n = x.shape[axis]
    if ind.is_concrete():
        idx = np.array(ind.ints(), dtype=np.int64).reshape(ind.shape)
        if idx.size and (idx.min() < -n or idx.max() >= n):
            raise ModelInvalid(f"Gather: constant index out of range for size {n}")
        return [_check_size(T(x.dtype, np.take(x.a, idx, axis=axis)))]
    xm = np.moveaxis(x.a, axis, 0)  # (n, rest...)
    rest = xm.shape[1:]
    out = np.empty(ind.shape + rest, dtype=object)
    k = x.kind
    for ii in np.ndindex(*ind.shape) if ind.shape else [()]:
        iv = ind.a[ii]
        for rr in np.ndindex(*rest) if rest else [()]:
            out[ii + rr] = _select_by_index(ctx, [xm[(j,) + rr] for j in range(n)], iv, k, "Gather")
    # result layout: x.shape[:axis] + ind.shape + x.shape[axis+1:]
    q = len(ind.shape)
    # currently (ind..., pre..., post...) -> (pre..., ind..., post...)
    pre = axis
    perm = list(range(q, q + pre)) + list(range(q)) + list(range(q + pre, out.ndim))
    return [_check_size(T(x.dtype, np.transpose(out, perm)))]


@op("GatherElements")
def _gather_elements(ctx, ins, at):
    x, ind = ins
    axis = int(at.get("axis", 0)) % x.ndim
    n = x.shape[axis]
    out = np.empty(ind.shape, dtype=object)
    k = x.kind
    for ii in np.ndindex(*ind.shape):
        iv = ind.a[ii]
        cands = [x.a[ii[:axis] + (j,) + ii[axis + 1:]] for j in range(n)]
        out[ii] = _select_by_index(ctx, cands, iv, k, "GatherElements")
    return [T(x.dtype, out)]


@op("GatherND")
def _gathernd(ctx, ins, at):
    x, ind = ins
    b = int(at.get("batch_dims", 0))
    if b != 0:
        raise NotEncodable("GatherND batch_dims")
    if not ind.is_concrete():
        raise NotEncodable("GatherND symbolic indices")
    idx = np.array(ind.ints(), dtype=np.int64).reshape(ind.shape)
    r = idx.shape[-1]
    out_shape = idx.shape[:-1] + x.shape[r:]
    out = np.empty(out_shape, dtype=object)
    for ii in np.ndindex(*idx.shape[:-1]) if idx.shape[:-1] else [()]:
        tup = tuple(int(v) for v in idx[ii])
        for d, v in enumerate(tup):
            if not (-x.shape[d] <= v < x.shape[d]):
                raise ModelInvalid("GatherND index out of range")
        out[ii] = x.a[tup]
    return [T(x.dtype, out)]


@op("ScatterND")
def _scatternd(ctx, ins, at):
    x, ind, upd = ins
    red = _s(at.get("reduction", "none"))
    if not ind.is_concrete():
        return _scatternd_symbolic(ctx, x, ind, upd, red)
    idx = np.array(ind.ints(), dtype=np.int64).reshape(ind.shape)
    out = x.a.copy()
    r = idx.shape[-1]
    k = x.kind
    for ii in np.ndindex(*idx.shape[:-1]) if idx.shape[:-1] else [()]:
        tup = tuple(int(v) for v in idx[ii])
        for d, v in enumerate(tup):
            if not (-x.shape[d] <= v < x.shape[d]):
                raise ModelInvalid("ScatterND index out of range")
        u = upd.a[ii]
        if red == "none":
            out[tup] = u
        else:
            cur = out[tup]
            comb = _scatter_combine(red, k, x.dtype)
            if isinstance(cur, np.ndarray):
                res = np.empty(cur.shape, dtype=object)
                for jj in np.ndindex(*cur.shape):
                    res[jj] = comb(cur[jj], u[jj])
                out[tup] = res
            else:
                out[tup] = comb(cur, u)
    return [T(x.dtype, out)]


def _scatternd_symbolic(ctx, x, ind, upd, red):
    """updates are applied in order; element e is overwritten when the (symbolic) index tuple hits it"""
    r = ind.shape[-1]
    out = x.a.copy()
    k = x.kind
    comb = (lambda a, b: b) if red == "none" else _scatter_combine(red, k, x.dtype)
    tail = x.shape[r:]
    if x.size * int(np.prod(ind.shape[:-1]) if ind.shape[:-1] else 1) > 4096:
        raise NotEncodable("symbolic ScatterND too large")
    for ii in np.ndindex(*ind.shape[:-1]) if ind.shape[:-1] else [()]:
        tup = [ind.a[ii + (d,)] for d in range(r)]
        norm = []
        for d, v in enumerate(tup):
            n = x.shape[d]
            if S.is_sym(v):
                ctx.obligations.append((z3.And(v >= -n, v < n), "ScatterND index in range"))
                norm.append(z3.If(v < 0, v + n, v))
            else:
                if not (-n <= int(v) < n):
                    raise ModelInvalid("ScatterND index out of range")
                norm.append(int(v) % n)
        for head in np.ndindex(*x.shape[:r]):
            cond = True
            for d in range(r):
                cond = S.b_and(cond, S.c_eq(norm[d], head[d], "i"))
            if cond is False:
                continue
            for tt in np.ndindex(*tail) if tail else [()]:
                u = upd.a[ii + tt]
                e = head + tt
                out[e] = S.ite(cond, comb(out[e], u), out[e], k)
    return [T(x.dtype, out)]


def _scatter_combine(red, k, dt):
    if red == "add":
        return (lambda a, b: S.i_add(a, b, dt)) if k == "i" else S.f_add
    if red == "mul":
        return (lambda a, b: S.i_mul(a, b, dt)) if k == "i" else S.f_mul
    if red == "max":
        return S.i_max if k == "i" else S.f_max
    if red == "min":
        return S.i_min if k == "i" else S.f_min
    raise NotEncodable(f"scatter reduction {red}")


@op("ScatterElements")
def _scatter_elements(ctx, ins, at):
    x, ind, upd = ins
    axis = int(at.get("axis", 0)) % x.ndim
    red = _s(at.get("reduction", "none"))
    if not ind.is_concrete():
        raise NotEncodable("ScatterElements symbolic indices")
    idx = np.array(ind.ints(), dtype=np.int64).reshape(ind.shape)
    out = x.a.copy()
    k = x.kind
    for ii in np.ndindex(*idx.shape):
        v = int(idx[ii])
        if not (-x.shape[axis] <= v < x.shape[axis]):
            raise ModelInvalid("ScatterElements index out of range")
        tgt = ii[:axis] + (v % x.shape[axis],) + ii[axis + 1:]
        if red == "none":
            out[tgt] = upd.a[ii]
        else:
            out[tgt] = _scatter_combine(red, k, x.dtype)(out[tgt], upd.a[ii])
    return [T(x.dtype, out)]


@op("Split")
def _split(ctx, ins, at, n_out=None):
    x = ins[0]
    axis = int(at.get("axis", 0)) % x.ndim
    split = at.get("split")
    if len(ins) > 1 and ins[1] is not None:
        split = _ints(ins[1])
    d = x.shape[axis]
    if split is None:
        n = int(at.get("num_outputs", n_out or 1))
        if n_out is not None and "num_outputs" not in at:
            n = n_out
        sz = -(-d // n)
        split = [sz] * (n - 1) + [d - sz * (n - 1)]
    if sum(split) != d or any(s < 0 for s in split):
        raise ModelInvalid(f"Split sizes {split} for dim {d}")
    outs, pos = [], 0
    for s in split:
        sl = [slice(None)] * x.ndim
        sl[axis] = slice(pos, pos + s)
        outs.append(T(x.dtype, x.a[tuple(sl)]))
        pos += s
    return outs


@op("Pad")
def _pad(ctx, ins, at):
    x = ins[0]
    mode = _s(at.get("mode", "constant"))
    if len(ins) > 1:
        pads = _ints(ins[1])
        cval = ins[2].a.reshape(-1)[0] if len(ins) > 2 and ins[2] is not None and ins[2].size else S.zero_of(x.dtype)
        axes = _ints(ins[3]) if len(ins) > 3 and ins[3] is not None else list(range(x.ndim))
    else:
        pads = list(at["pads"])
        cval = float(at.get("value", 0.0))
        axes = list(range(x.ndim))
    axes = [a % x.ndim for a in axes]
    n = len(axes)
    if len(pads) != 2 * n:
        raise ModelInvalid("Pad pads length")
    before = [0] * x.ndim
    after = [0] * x.ndim
    for i, ax in enumerate(axes):
        before[ax], after[ax] = pads[i], pads[i + n]
    a = x.a
    # negative pads crop
    sl = []
    for d in range(x.ndim):
        s = -before[d] if before[d] < 0 else 0
        e = a.shape[d] + after[d] if after[d] < 0 else a.shape[d]
        sl.append(slice(s, e))
    a = a[tuple(sl)]
    pw = [(max(b, 0), max(af, 0)) for b, af in zip(before, after)]
    if mode == "constant":
        out = np.empty(tuple(a.shape[d] + pw[d][0] + pw[d][1] for d in range(x.ndim)), dtype=object)
        out.fill(cval)
        out[tuple(slice(pw[d][0], pw[d][0] + a.shape[d]) for d in range(x.ndim))] = a
    elif mode in ("reflect", "edge", "wrap"):
        idx = np.arange(a.size).reshape(a.shape)
        idx = np.pad(idx, pw, mode={"reflect": "reflect", "edge": "edge", "wrap": "wrap"}[mode])
        out = a.reshape(-1)[idx]
    else:
        raise NotEncodable(f"Pad mode {mode}")
    return [_check_size(T(x.dtype, out))]


@op("Trilu")
def _trilu(ctx, ins, at):
    x = ins[0]
    upper = int(at.get("upper", 1))
    k = 0
    if len(ins) > 1 and ins[1] is not None:
        k = _ints(ins[1])[0]
    out = x.a.copy()
    z = S.zero_of(x.dtype)
    for ii in np.ndindex(*x.shape):
        i, j = ii[-2], ii[-1]
        keep = (j - i >= k) if upper else (j - i <= k)
        if not keep:
            out[ii] = z
    return [T(x.dtype, out)]


@op("OneHot")
def _onehot(ctx, ins, at):
    ind, depth, vals = ins
    axis = int(at.get("axis", -1))
    d = int(depth.a.reshape(-1)[0]) if depth.is_concrete() else None
    if d is None:
        raise NotEncodable("OneHot symbolic depth")
    off, on = vals.a.reshape(-1)[0], vals.a.reshape(-1)[1]
    k = vals.kind
    out = np.empty(ind.shape + (d,), dtype=object)
    ik = ind.kind
    for ii in np.ndindex(*ind.shape) if ind.shape else [()]:
        iv = ind.a[ii]
        for j in range(d):
            # indices in [-depth, -1] wrap; everything else out of range -> off
            if ik == "f":
                hit = S.b_or(S.c_eq(iv, float(j), "f"), S.c_eq(iv, float(j - d), "f"))
            else:
                hit = S.b_or(S.c_eq(iv, j, "i"), S.c_eq(iv, j - d, "i"))
            out[ii + (j,)] = S.ite(hit, on, off, k)
    nd = out.ndim
    ax = axis % nd
    out = np.moveaxis(out, -1, ax)
    return [T(vals.dtype, out)]


@op("DepthToSpace")
def _d2s(ctx, ins, at):
    x = ins[0]
    b = int(at["blocksize"])
    mode = _s(at.get("mode", "DCR"))
    n, c, h, w = x.shape
    if mode == "DCR":
        t = x.a.reshape(n, b, b, c // (b * b), h, w).transpose(0, 3, 4, 1, 5, 2)
    else:
        t = x.a.reshape(n, c // (b * b), b, b, h, w).transpose(0, 1, 4, 2, 5, 3)
    return [T(x.dtype, t.reshape(n, c // (b * b), h * b, w * b))]


@op("SpaceToDepth")
def _s2d(ctx, ins, at):
    x = ins[0]
    b = int(at["blocksize"])
    n, c, h, w = x.shape
    t = x.a.reshape(n, c, h // b, b, w // b, b).transpose(0, 3, 5, 1, 2, 4)
    return [T(x.dtype, t.reshape(n, c * b * b, h // b, w // b))]


@op("EyeLike")
def _eyelike(ctx, ins, at):
    x = ins[0]
    k = int(at.get("k", 0))
    dt = np_dtype_of(int(at["dtype"])) if "dtype" in at else x.dtype
    return [S.from_numpy(np.eye(x.shape[0], x.shape[1], k=k).astype(dt if dt.kind in "biuf" else np.float32), dt)]


@op("NonZero")
def _nonzero(ctx, ins, at):
    x = ins[0]
    if not x.is_concrete():
        raise NotEncodable("NonZero on symbolic data (data-dependent shape)")
    arr = x.to_numpy()
    return [S.from_numpy(np.array(np.nonzero(arr), dtype=np.int64).reshape(arr.ndim, -1))]


# --------------------------------------------------------------------------- reductions

def _reduce_axes_arg(ctx, ins, at, x):
    axes = at.get("axes")
    if len(ins) > 1 and ins[1] is not None:
        axes = _ints(ins[1])
    noop = int(at.get("noop_with_empty_axes", 0))
    keep = int(at.get("keepdims", 1))
    if axes is None or len(axes) == 0:
        if noop and axes is not None:
            return None, keep
        if noop and axes is None:
            return None, keep
        axes = list(range(x.ndim))
    for a in axes:
        if not (-x.ndim <= a < x.ndim) and x.ndim:
            raise ModelInvalid("Reduce axis out of range")
    return [a % x.ndim for a in axes] if x.ndim else [], keep


def _mk_reduce(name, fold, init_of, post=None, pre=None):
    def impl(ctx, ins, at):
        x = ins[0]
        axes, keep = _reduce_axes_arg(ctx, ins, at, x)
        if axes is None:
            return [x]
        xx = S.map1(pre(x), x) if pre else x
        n = int(np.prod([x.shape[a] for a in axes])) if axes else 1
        r = S.reduce_axes(fold(x), xx, axes, bool(keep), init_of(x))
        if post:
            r = S.map1(post(x, n), r)
        return [r]

    OPS[name] = impl


def _addf(x):
    return (lambda a, b: S.i_add(a, b, x.dtype)) if x.kind == "i" else S.f_add


def _mulf(x):
    return (lambda a, b: S.i_mul(a, b, x.dtype)) if x.kind == "i" else S.f_mul


def _maxf(x):
    return S.i_max if x.kind == "i" else (S.f_max if x.kind == "f" else S.b_or)


def _minf(x):
    return S.i_min if x.kind == "i" else (S.f_min if x.kind == "f" else S.b_and)


def _minval(x):
    if x.kind == "f":
        return None
    if x.kind == "b":
        return None
    return None


_mk_reduce("ReduceSum", _addf, lambda x: S.zero_of(x.dtype))
_mk_reduce("ReduceProd", _mulf, lambda x: S.one_of(x.dtype))
_mk_reduce("ReduceMax", _maxf, lambda x: None)
_mk_reduce("ReduceMin", _minf, lambda x: None)
_mk_reduce(
    "ReduceMean",
    _addf,
    lambda x: S.zero_of(x.dtype),
    post=lambda x, n: (lambda a: S.f_div(a, float(n))),
)
_mk_reduce(
    "ReduceSumSquare",
    _addf,
    lambda x: S.zero_of(x.dtype),
    pre=lambda x: (lambda a: S.f_mul(a, a)) if x.kind == "f" else (lambda a: S.i_mul(a, a, x.dtype)),
)
_mk_reduce("ReduceL1", _addf, lambda x: S.zero_of(x.dtype), pre=lambda x: S.f_abs)
_mk_reduce(
    "ReduceL2",
    _addf,
    lambda x: S.zero_of(x.dtype),
    pre=lambda x: (lambda a: S.f_mul(a, a)),
    post=lambda x, n: S.f_sqrt,
)
_mk_reduce("ReduceLogSum", _addf, lambda x: S.zero_of(x.dtype), post=lambda x, n: S.f_log)
_mk_reduce(
    "ReduceLogSumExp",
    _addf,
    lambda x: S.zero_of(x.dtype),
    pre=lambda x: S.f_exp,
    post=lambda x, n: S.f_log,
)


def _arg_reduce(ins, at, is_max):
    x = ins[0]
    axis = int(at.get("axis", 0)) % x.ndim
    keep = int(at.get("keepdims", 1))
    last = int(at.get("select_last_index", 0))
    k = x.kind
    xm = np.moveaxis(x.a, axis, -1)
    out = np.empty(xm.shape[:-1], dtype=object)
    n = xm.shape[-1]
    if n == 0:
        raise ModelInvalid("ArgMax over empty axis")
    better = (S.c_gt if is_max else S.c_lt)
    better_eq = (S.c_ge if is_max else S.c_le)
    for ii in np.ndindex(*out.shape) if out.shape else [()]:
        row = xm[ii]
        bi, bv = 0, row[0]
        for j in range(1, n):
            c = (better_eq if last else better)(row[j], bv, k)
            bi = S.ite(c, j, bi, "i")
            bv = S.ite(c, row[j], bv, k)
        out[ii] = bi
    if keep:
        out = np.expand_dims(out, axis)
    return [T(np.int64, out)]


@op("ArgMax")
def _argmax(ctx, ins, at):
    return _arg_reduce(ins, at, True)


@op("ArgMin")
def _argmin(ctx, ins, at):
    return _arg_reduce(ins, at, False)


def _cum(ctx, ins, at, comb_of):
    x, ax = ins
    axis = _ints(ax)[0] % x.ndim
    excl = int(at.get("exclusive", 0))
    rev = int(at.get("reverse", 0))
    comb, ident = comb_of(x)
    xm = np.moveaxis(x.a, axis, -1)
    out = np.empty(xm.shape, dtype=object)
    n = xm.shape[-1]
    for ii in np.ndindex(*xm.shape[:-1]) if xm.shape[:-1] else [()]:
        row = list(xm[ii])
        if rev:
            row = row[::-1]
        acc = ident
        res = []
        for j in range(n):
            if excl:
                res.append(acc)
                acc = comb(acc, row[j])
            else:
                acc = comb(acc, row[j]) if j > 0 or True else row[j]
                res.append(acc)
        if rev:
            res = res[::-1]
        for j in range(n):
            out[ii + (j,)] = res[j]
    return [T(x.dtype, np.moveaxis(out, -1, axis))]


@op("CumSum")
def _cumsum(ctx, ins, at):
    return _cum(ctx, ins, at, lambda x: (_addf(x), S.zero_of(x.dtype)))


@op("CumProd")
def _cumprod(ctx, ins, at):
    return _cum(ctx, ins, at, lambda x: (_mulf(x), S.one_of(x.dtype)))


# --------------------------------------------------------------------------- linear algebra / nn

@op("MatMul")
def _matmul(ctx, ins, at):
    _same_type(ins, "MatMul")
    if ins[0].ndim == 0 or ins[1].ndim == 0:
        raise ModelInvalid("MatMul on scalar")
    return [_check_size(S.matmul_core(ins[0], ins[1]))]


@op("Gemm")
def _gemm(ctx, ins, at):
    a, b = ins[0], ins[1]
    c = ins[2] if len(ins) > 2 else None
    alpha = float(at.get("alpha", 1.0))
    beta = float(at.get("beta", 1.0))
    if int(at.get("transA", 0)):
        a = T(a.dtype, a.a.T)
    if int(at.get("transB", 0)):
        b = T(b.dtype, b.a.T)
    if a.ndim != 2 or b.ndim != 2:
        raise ModelInvalid("Gemm rank")
    r = S.matmul_core(a, b)
    if alpha != 1.0:
        r = S.map1(lambda v: S.f_mul(alpha, v), r)
    if c is not None:
        cc = c if beta == 1.0 else S.map1(lambda v: S.f_mul(beta, v), c)
        r = S.add(r, cc)
    return [r]


def einsum_T(eq: str, ops, dtype):
    eq = eq.replace(" ", "")
    if "->" in eq:
        lhs, rhs = eq.split("->")
    else:
        lhs, rhs = eq, None
    terms = lhs.split(",")
    if len(terms) != len(ops):
        raise ModelInvalid("einsum operand count")
    if "..." in eq:
        # expand every ellipsis into fresh letters, aligned from the right (numpy broadcasting)
        used = set(c for c in eq if c.isalpha())
        pool = [c for c in "ABCDEFGHIJKLMNOPQRSTUVWXYZabcdefghijklmnopqrstuvwxyz" if c not in used]
        ranks = []
        for t, o in zip(terms, ops):
            if t.count("...") > 1:
                raise ModelInvalid("einsum: two ellipses in one term")
            ranks.append(o.ndim - len(t.replace("...", "")) if "..." in t else 0)
            if ranks[-1] < 0:
                raise ModelInvalid("einsum rank")
        me = max(ranks) if ranks else 0
        ell = "".join(pool[:me])
        terms = [t.replace("...", ell[me - r:] if r else "") for t, r in zip(terms, ranks)]
        if rhs is None:
            plain = "".join(terms)
            rhs = ell + "".join(c for c in sorted(set(plain) - set(ell)) if plain.count(c) == 1)
        else:
            rhs = rhs.replace("...", ell)
    if rhs is None:
        letters = sorted(set(lhs.replace(",", "")))
        rhs = "".join(c for c in letters if lhs.replace(",", "").count(c) == 1)
    dims = {}
    for t, o in zip(terms, ops):
        if len(t) != o.ndim:
            raise ModelInvalid("einsum rank")
        for ch, d in zip(t, o.shape):
            if dims.setdefault(ch, d) != d:
                if dims[ch] == 1:
                    dims[ch] = d
                elif d != 1:
                    raise ModelInvalid("einsum dim mismatch")
    contr = [c for c in dims if c not in rhs]
    k = S.kind_of(dtype)
    mulf = (lambda a, b: S.i_mul(a, b, dtype)) if k == "i" else S.f_mul
    addf = (lambda a, b: S.i_add(a, b, dtype)) if k == "i" else S.f_add
    out = np.empty(tuple(dims[c] for c in rhs), dtype=object)
    total = out.size * int(np.prod([dims[c] for c in contr]) if contr else 1)
    if total > 200000:
        raise NotEncodable("einsum too large")
    for oi in np.ndindex(*out.shape) if out.shape else [()]:
        env = dict(zip(rhs, oi))
        acc = S.zero_of(dtype)
        for ci in np.ndindex(*[dims[c] for c in contr]) if contr else [()]:
            env.update(zip(contr, ci))
            p = None
            for t, o in zip(terms, ops):
                idx = tuple(env[ch] if o.shape[i] != 1 else 0 for i, ch in enumerate(t))
                v = o.a[idx]
                p = v if p is None else mulf(p, v)
            acc = addf(acc, p)
        out[oi] = acc
    return T(dtype, out)


@op("Einsum")
def _einsum(ctx, ins, at):
    return [_check_size(einsum_T(_s(at["equation"]), ins, ins[0].dtype))]


def softmax_lastlike(x: T, axis, log=False):
    axis %= x.ndim
    xm = np.moveaxis(x.a, axis, -1)
    out = np.empty(xm.shape, dtype=object)
    n = xm.shape[-1]
    for ii in np.ndindex(*xm.shape[:-1]) if xm.shape[:-1] else [()]:
        row = xm[ii]
        m = row[0]
        for j in range(1, n):
            m = S.f_max(m, row[j])
        ex = [S.f_exp(S.f_sub(row[j], m)) for j in range(n)]
        s = ex[0]
        for j in range(1, n):
            s = S.f_add(s, ex[j])
        for j in range(n):
            if log:
                out[ii + (j,)] = S.f_sub(S.f_sub(row[j], m), S.f_log(s))
            else:
                out[ii + (j,)] = S.f_div(ex[j], s)
    return T(x.dtype, np.moveaxis(out, -1, axis))


@op("Softmax")
def _softmax(ctx, ins, at):
    x = ins[0]
    if ctx.opset >= 13:
        return [softmax_lastlike(x, int(at.get("axis", -1)))]
    axis = int(at.get("axis", 1)) % max(x.ndim, 1)
    flat = T(x.dtype, x.a.reshape(int(np.prod(x.shape[:axis])), -1))
    r = softmax_lastlike(flat, 1)
    return [T(x.dtype, r.a.reshape(x.shape))]


@op("LogSoftmax")
def _logsoftmax(ctx, ins, at):
    x = ins[0]
    if ctx.opset >= 13:
        return [softmax_lastlike(x, int(at.get("axis", -1)), log=True)]
    axis = int(at.get("axis", 1)) % max(x.ndim, 1)
    flat = T(x.dtype, x.a.reshape(int(np.prod(x.shape[:axis])), -1))
    r = softmax_lastlike(flat, 1, log=True)
    return [T(x.dtype, r.a.reshape(x.shape))]


@op("Hardmax")
def _hardmax(ctx, ins, at):
    x = ins[0]
    axis = int(at.get("axis", -1)) % x.ndim
    am = _arg_reduce([x], {"axis": axis, "keepdims": 1}, True)[0]
    n = x.shape[axis]
    out = np.empty(x.shape, dtype=object)
    for ii in np.ndindex(*x.shape):
        jj = ii[:axis] + (0,) + ii[axis + 1:]
        out[ii] = S.ite(S.c_eq(am.a[jj], ii[axis], "i"), 1.0, 0.0, "f")
    return [T(x.dtype, out)]


def _mean_var(x: T, axes):
    n = float(np.prod([x.shape[a] for a in axes]))
    s = S.reduce_axes(S.f_add, x, axes, True, 0.0)
    mean = S.map1(lambda a: S.f_div(a, n), s)
    d = S.sub(x, mean)
    sq = S.map1(lambda a: S.f_mul(a, a), d)
    v = S.reduce_axes(S.f_add, sq, axes, True, 0.0)
    var = S.map1(lambda a: S.f_div(a, n), v)
    return mean, var, d


@op("LayerNormalization")
def _layernorm(ctx, ins, at):
    x = ins[0]
    scale = ins[1]
    bias = ins[2] if len(ins) > 2 else None
    axis = int(at.get("axis", -1)) % x.ndim
    eps = float(at.get("epsilon", 1e-5))
    axes = list(range(axis, x.ndim))
    mean, var, d = _mean_var(x, axes)
    inv = S.map1(lambda v: S.f_div(1.0, S.f_sqrt(S.f_add(v, eps))), var)
    y = S.mul(S.mul(d, inv), scale)
    if bias is not None:
        y = S.add(y, bias)
    return [y, mean, inv]


@op("RMSNormalization")
def _rmsnorm(ctx, ins, at):
    x, scale = ins[0], ins[1]
    axis = int(at.get("axis", -1)) % x.ndim
    eps = float(at.get("epsilon", 1e-5))
    axes = list(range(axis, x.ndim))
    n = float(np.prod([x.shape[a] for a in axes]))
    sq = S.map1(lambda a: S.f_mul(a, a), x)
    ms = S.map1(lambda a: S.f_div(a, n), S.reduce_axes(S.f_add, sq, axes, True, 0.0))
    inv = S.map1(lambda v: S.f_div(1.0, S.f_sqrt(S.f_add(v, eps))), ms)
    return [S.mul(S.mul(x, inv), scale)]


@op("BatchNormalization")
def _batchnorm(ctx, ins, at):
    x, scale, b, mean, var = ins
    if int(at.get("training_mode", 0)):
        raise NotEncodable("BatchNormalization training mode")
    eps = float(at.get("epsilon", 1e-5))
    shp = [1] * x.ndim
    if x.ndim > 1:
        shp[1] = x.shape[1]
    else:
        shp = [x.shape[0]] if x.ndim else []
    rs = lambda t: T(t.dtype, t.a.reshape(shp))
    inv = S.map1(lambda v: S.f_div(1.0, S.f_sqrt(S.f_add(v, eps))), rs(var))
    y = S.add(S.mul(S.mul(S.sub(x, rs(mean)), inv), rs(scale)), rs(b))
    return [y]


@op("InstanceNormalization")
def _instnorm(ctx, ins, at):
    x, scale, b = ins
    eps = float(at.get("epsilon", 1e-5))
    axes = list(range(2, x.ndim))
    mean, var, d = _mean_var(x, axes)
    inv = S.map1(lambda v: S.f_div(1.0, S.f_sqrt(S.f_add(v, eps))), var)
    shp = [1, x.shape[1]] + [1] * (x.ndim - 2)
    rs = lambda t: T(t.dtype, t.a.reshape(shp))
    return [S.add(S.mul(S.mul(d, inv), rs(scale)), rs(b))]


@op("GlobalAveragePool")
def _gap(ctx, ins, at):
    x = ins[0]
    axes = list(range(2, x.ndim))
    n = float(np.prod(x.shape[2:]))
    return [S.map1(lambda a: S.f_div(a, n), S.reduce_axes(S.f_add, x, axes, True, 0.0))]


@op("GlobalMaxPool")
def _gmp(ctx, ins, at):
    x = ins[0]
    return [S.reduce_axes(S.f_max, x, list(range(2, x.ndim)), True, None)]


def _pool_windows(x, at, ceil_pad_ok=False):
    ks = [int(k) for k in at["kernel_shape"]]
    nsp = len(ks)
    strides = [int(s) for s in at.get("strides", [1] * nsp)]
    dil = [int(s) for s in at.get("dilations", [1] * nsp)]
    pads = [int(p) for p in at.get("pads", [0] * (2 * nsp))]
    auto = _s(at.get("auto_pad", "NOTSET"))
    ceil_mode = int(at.get("ceil_mode", 0))
    if auto != "NOTSET" and auto != "VALID":
        # SAME_UPPER / SAME_LOWER
        pads = [0] * (2 * nsp)
        for i in range(nsp):
            inp = x.shape[2 + i]
            out = -(-inp // strides[i])
            tot = max((out - 1) * strides[i] + (ks[i] - 1) * dil[i] + 1 - inp, 0)
            lo = tot // 2 if auto == "SAME_UPPER" else tot - tot // 2
            pads[i], pads[i + nsp] = lo, tot - lo
    out_sp = []
    for i in range(nsp):
        inp = x.shape[2 + i] + pads[i] + pads[i + nsp]
        eff = (ks[i] - 1) * dil[i] + 1
        if ceil_mode:
            o = -(-(inp - eff) // strides[i]) + 1
            # ONNX: last window must start inside input or left padding
            if (o - 1) * strides[i] >= x.shape[2 + i] + pads[i]:
                o -= 1
        else:
            o = (inp - eff) // strides[i] + 1
        out_sp.append(max(o, 0))
    return ks, strides, dil, pads, out_sp, nsp


@op("MaxPool")
def _maxpool(ctx, ins, at):
    x = ins[0]
    ks, strides, dil, pads, out_sp, nsp = _pool_windows(x, at)
    if int(at.get("storage_order", 0)):
        raise NotEncodable("MaxPool storage_order")
    out = np.empty(x.shape[:2] + tuple(out_sp), dtype=object)
    k = x.kind
    mx = S.f_max if k == "f" else S.i_max
    for ii in np.ndindex(*out.shape):
        n, c, sp = ii[0], ii[1], ii[2:]
        acc = None
        for kk in np.ndindex(*ks):
            pos = [sp[d] * strides[d] - pads[d] + kk[d] * dil[d] for d in range(nsp)]
            if all(0 <= pos[d] < x.shape[2 + d] for d in range(nsp)):
                v = x.a[(n, c) + tuple(pos)]
                acc = v if acc is None else mx(acc, v)
        if acc is None:
            raise NotEncodable("MaxPool window fully in padding")
        out[ii] = acc
    return [_check_size(T(x.dtype, out))]


@op("AveragePool")
def _avgpool(ctx, ins, at):
    x = ins[0]
    ks, strides, dil, pads, out_sp, nsp = _pool_windows(x, at)
    cip = int(at.get("count_include_pad", 0))
    out = np.empty(x.shape[:2] + tuple(out_sp), dtype=object)
    for ii in np.ndindex(*out.shape):
        n, c, sp = ii[0], ii[1], ii[2:]
        acc, cnt, cnt_pad = 0.0, 0, 0
        for kk in np.ndindex(*ks):
            pos = [sp[d] * strides[d] - pads[d] + kk[d] * dil[d] for d in range(nsp)]
            inside = all(0 <= pos[d] < x.shape[2 + d] for d in range(nsp))
            inside_padded = all(-pads[d] <= pos[d] < x.shape[2 + d] + pads[d + nsp] for d in range(nsp))
            if inside:
                acc = S.f_add(acc, x.a[(n, c) + tuple(pos)])
                cnt += 1
            if inside_padded:
                cnt_pad += 1
        den = cnt_pad if cip else cnt
        if den == 0:
            raise NotEncodable("AveragePool empty window")
        out[ii] = S.f_div(acc, float(den))
    return [_check_size(T(x.dtype, out))]


@op("Conv")
def _conv(ctx, ins, at):
    x, w = ins[0], ins[1]
    b = ins[2] if len(ins) > 2 and ins[2] is not None else None
    nsp = x.ndim - 2
    group = int(at.get("group", 1))
    at2 = dict(at)
    at2.setdefault("kernel_shape", list(w.shape[2:]))
    ks, strides, dil, pads, out_sp, nsp = _pool_windows(x, at2)
    N, C = x.shape[:2]
    M = w.shape[0]
    cg = C // group
    if w.shape[1] != cg or M % group:
        raise ModelInvalid("Conv channel mismatch")
    mg = M // group
    work = N * M * int(np.prod(out_sp)) * cg * int(np.prod(ks))
    if work > 300000:
        raise NotEncodable("Conv too large")
    out = np.empty((N, M) + tuple(out_sp), dtype=object)
    for ii in np.ndindex(*out.shape):
        n, m, sp = ii[0], ii[1], ii[2:]
        g = m // mg
        acc = 0.0
        for c in range(cg):
            for kk in np.ndindex(*ks):
                pos = [sp[d] * strides[d] - pads[d] + kk[d] * dil[d] for d in range(nsp)]
                if all(0 <= pos[d] < x.shape[2 + d] for d in range(nsp)):
                    acc = S.f_add(acc, S.f_mul(x.a[(n, g * cg + c) + tuple(pos)], w.a[(m, c) + kk]))
        if b is not None:
            acc = S.f_add(acc, b.a[m])
        out[ii] = acc
    return [_check_size(T(x.dtype, out))]


@op("TopK")
def _topk(ctx, ins, at):
    x, kk = ins
    k = _ints(kk)[0]
    axis = int(at.get("axis", -1)) % x.ndim
    largest = int(at.get("largest", 1))
    knd = x.kind
    xm = np.moveaxis(x.a, axis, -1)
    n = xm.shape[-1]
    if n > 6:
        raise NotEncodable("TopK over more than 6 elements")
    vals = np.empty(xm.shape[:-1] + (k,), dtype=object)
    idxs = np.empty(xm.shape[:-1] + (k,), dtype=object)
    for ii in np.ndindex(*xm.shape[:-1]) if xm.shape[:-1] else [()]:
        row = [(xm[ii + (j,)], j) for j in range(n)]
        # stable selection: repeatedly extract best with the lowest index on ties
        v, ix = sort_pairs([r[0] for r in row], [r[1] for r in row], knd, descending=bool(largest))
        for j in range(k):
            vals[ii + (j,)] = v[j]
            idxs[ii + (j,)] = ix[j]
    return [T(x.dtype, np.moveaxis(vals, -1, axis)), T(np.int64, np.moveaxis(idxs, -1, axis))]


def sort_pairs(vals, idx, kind, descending=False):
    """Stable bubble network on (value, index) pairs; ties keep lower original index first."""
    vals, idx = list(vals), list(idx)
    n = len(vals)
    lt = S.c_gt if descending else S.c_lt
    for i in range(n):
        for j in range(n - 1 - i):
            # swap if vals[j+1] strictly better than vals[j]
            c = lt(vals[j + 1], vals[j], kind)
            a, b = vals[j], vals[j + 1]
            ia, ib = idx[j], idx[j + 1]
            vals[j], vals[j + 1] = S.ite(c, b, a, kind), S.ite(c, a, b, kind)
            idx[j], idx[j + 1] = S.ite(c, ib, ia, "i"), S.ite(c, ia, ib, "i")
    return vals, idx


@op("RandomUniformLike", "RandomNormalLike")
def _random_like(ctx, ins, at):
    # stochastic: every node instance yields fresh, independent symbols (in evaluation order)
    x = ins[0]
    dt = np_dtype_of(int(at["dtype"])) if "dtype" in at else x.dtype
    k = next(ctx.rand_counter)
    out = np.empty(x.shape, dtype=object)
    flat = out.reshape(-1) if out.ndim else None
    n = out.size
    for i in range(n):
        v = z3.Real(f"__rand{k}_{i}")
        if flat is None:
            out[()] = v
        else:
            flat[i] = v
    ctx.stochastic = True
    return [T(dt, out)]


# --------------------------------------------------------------------------- evaluation

ELEMENTWISE_UNKNOWN_OK = set()


class Scope:
    def __init__(self, parent=None):
        self.vals = {}
        self.parent = parent

    def get(self, name):
        s = self
        while s is not None:
            if name in s.vals:
                return s.vals[name]
            s = s.parent
        raise ModelInvalid(f"value '{name}' used before definition / not in scope")

    def has(self, name):
        s = self
        while s is not None:
            if name in s.vals:
                return True
            s = s.parent
        return False


def _record_declared(ctx, g):
    for vi in list(g.value_info) + list(g.output):
        tt = vi.type.tensor_type
        if tt.HasField("shape"):
            ctx.declared[vi.name] = [int(d.dim_value) if d.HasField("dim_value") else None for d in tt.shape.dim]


def eval_graph(ctx: Ctx, g: onnx.GraphProto, scope: Scope, top=False):
    _record_declared(ctx, g)
    for init in g.initializer:
        if init.name in scope.vals:
            raise ModelInvalid(f"initializer '{init.name}' redefines a value in its scope")
        scope.vals[init.name] = tensor_to_T(init)
    for node in g.node:
        eval_node(ctx, node, scope)
    outs = []
    for o in g.output:
        outs.append(scope.get(o.name))
    return outs


def _eval_if(ctx, node, ins, at, scope):
    c = ins[0]
    if c.kind != "b" or c.size != 1:
        raise ModelInvalid("If condition must be a single bool")
    cv = c.a.reshape(-1)[0]
    tb, eb = at["then_branch"], at["else_branch"]
    if not S.is_sym(cv):
        return eval_graph(ctx, tb if cv else eb, Scope(scope))
    n_ob = len(ctx.obligations)
    n_dom = len(ctx.domain)
    to = eval_graph(ctx, tb, Scope(scope))
    ctx.obligations[n_ob:] = [(z3.Implies(cv, o), d) for o, d in ctx.obligations[n_ob:]]
    ctx.domain[n_dom:] = [z3.Implies(cv, o) for o in ctx.domain[n_dom:]]
    n_ob, n_dom = len(ctx.obligations), len(ctx.domain)
    eo = eval_graph(ctx, eb, Scope(scope))
    ctx.obligations[n_ob:] = [(z3.Implies(z3.Not(cv), o), d) for o, d in ctx.obligations[n_ob:]]
    ctx.domain[n_dom:] = [z3.Implies(z3.Not(cv), o) for o in ctx.domain[n_dom:]]
    if len(to) != len(eo):
        raise ModelInvalid("If branches output count differ")
    outs = []
    for a, b in zip(to, eo):
        if a.shape != b.shape:
            raise NotEncodable("If branches with different output shapes under symbolic predicate")
        if a.dtype != b.dtype:
            raise ModelInvalid("If branches output dtypes differ")
        outs.append(S.where(T(np.bool_, np.broadcast_to(np.array(cv, dtype=object), a.shape).copy()) if a.ndim else T(np.bool_, cv), a, b))
    return outs


def _eval_loop(ctx, node, ins, at, scope):
    body = at["body"]
    M = ins[0] if len(ins) > 0 else None
    cond = ins[1] if len(ins) > 1 else None
    carried = list(ins[2:])
    n_carried = len(carried)
    n_scan = len(body.output) - 1 - n_carried
    if len(body.input) != 2 + n_carried:
        raise ModelInvalid("Loop body input arity")
    if n_scan < 0:
        raise ModelInvalid("Loop body output arity")
    max_trip = None
    if M is not None:
        if M.is_concrete():
            max_trip = int(M.a.reshape(-1)[0])
        else:
            max_trip = M.a.reshape(-1)[0]  # symbolic
    alive = True if cond is None else cond.a.reshape(-1)[0]
    scans = [[] for _ in range(n_scan)]
    bound = ctx.unroll
    concrete_trip = isinstance(max_trip, int)
    it = 0
    sym_exit = False
    while True:
        # alive condition before iteration `it`
        cur_alive = alive
        if max_trip is not None:
            cur_alive = S.b_and(S.c_lt(it, max_trip, "i"), alive)
        if not S.is_sym(cur_alive):
            if not cur_alive:
                break
        else:
            sym_exit = True
        if it >= bound and S.is_sym(cur_alive):
            ctx.unwind.append(z3.Not(cur_alive))
            break
        if it >= max(bound, 64):
            raise NotEncodable(f"Loop needs more than {max(bound, 64)} iterations")
        sc = Scope(scope)
        sc.vals[body.input[0].name] = S.from_numpy(np.array(it, dtype=np.int64))
        sc.vals[body.input[1].name] = T(np.bool_, np.array(True if not S.is_sym(cur_alive) else True, dtype=object))
        for bi, v in zip(body.input[2:], carried):
            sc.vals[bi.name] = v
        n_ob, n_dom = len(ctx.obligations), len(ctx.domain)
        outs = eval_graph(ctx, body, sc)
        if S.is_sym(cur_alive):
            ctx.obligations[n_ob:] = [(z3.Implies(cur_alive, o), d) for o, d in ctx.obligations[n_ob:]]
            ctx.domain[n_dom:] = [z3.Implies(cur_alive, o) for o in ctx.domain[n_dom:]]
        new_cond = outs[0].a.reshape(-1)[0]
        new_carried = outs[1 : 1 + n_carried]
        if S.is_sym(cur_alive):
            if n_scan:
                raise NotEncodable("Loop scan outputs with data-dependent trip count")
            merged = []
            for old, new in zip(carried, new_carried):
                if old.shape != new.shape:
                    raise NotEncodable("Loop carried shape changes under symbolic trip count")
                merged.append(S.map2(lambda o, nw: S.ite(cur_alive, nw, o, new.kind), old, new, new.dtype))
            carried = merged
            alive = S.b_and(cur_alive, new_cond)
        else:
            carried = list(new_carried)
            alive = new_cond
            for k in range(n_scan):
                scans[k].append(outs[1 + n_carried + k])
        it += 1
    results = list(carried)
    for k in range(n_scan):
        if scans[k]:
            results.append(T(scans[k][0].dtype, np.stack([s.a for s in scans[k]], axis=0)))
        else:
            # zero iterations: shape (0, ...) with body-declared element type
            vi = body.output[1 + n_carried + k]
            dt = np_dtype_of(vi.type.tensor_type.elem_type)
            dims = []
            for d in vi.type.tensor_type.shape.dim:
                if d.HasField("dim_value"):
                    dims.append(d.dim_value)
                else:
                    raise NotEncodable("zero-trip Loop scan output with unknown dims")
            results.append(T(dt, np.empty((0,) + tuple(dims), dtype=object)))
    return results


def eval_function(ctx: Ctx, fn: onnx.FunctionProto, ins, node):
    sc = Scope(None)
    if len(ins) > len(fn.input):
        raise ModelInvalid(f"call to {fn.name}: {len(ins)} inputs for {len(fn.input)} formals")
    for name, v in zip(fn.input, ins):
        if v is not None:
            sc.vals[name] = v
    if fn.attribute or fn.attribute_proto:
        raise NotEncodable("function attributes")
    saved = ctx.opset
    for imp in fn.opset_import:
        if imp.domain in ("", "ai.onnx"):
            ctx.opset = imp.version
    try:
        for n in fn.node:
            eval_node(ctx, n, sc)
    finally:
        ctx.opset = saved
    if len(node.output) > len(fn.output):
        raise ModelInvalid(f"call to {fn.name}: more outputs than the definition")
    return [sc.get(o) for o in fn.output]


def eval_node(ctx: Ctx, node: onnx.NodeProto, scope: Scope):
    ins = [scope.get(n) if n != "" else None for n in node.input]
    at = _attrs(node)
    ctx.ops_seen.add((node.domain, node.op_type))
    if node.domain not in ("", "ai.onnx"):
        key = (node.domain, node.op_type)
        fn = ctx.functions.get(key)
        if fn is None:
            raise ModelInvalid(f"call to undefined function {key}")
        outs = eval_function(ctx, fn, ins, node)
    elif node.op_type == "If":
        outs = _eval_if(ctx, node, ins, at, scope)
    elif node.op_type == "Loop":
        outs = _eval_loop(ctx, node, ins, at, scope)
    elif node.op_type == "Split":
        outs = _split(ctx, ins, at, n_out=len(node.output))
    else:
        impl = OPS.get(node.op_type)
        if impl is None:
            if ctx.unknown_elementwise_as_uf and node.op_type in ELEMENTWISE_UNKNOWN_OK:
                outs = _unknown_elementwise(ctx, node, ins, at)
            else:
                raise NotEncodable(f"onnx op {node.op_type}")
        else:
            while ins and ins[-1] is None:
                ins.pop()
            ctx.cur_node = node
            try:
                outs = impl(ctx, ins, at)
            except S.ShapeMismatch as e:
                raise ModelInvalid(f"{node.op_type}: {e}")
            except (ValueError, IndexError, KeyError, TypeError, AttributeError) as e:
                raise NotEncodable(f"onnx op {node.op_type}: {type(e).__name__}: {e}")
    for name, v in zip(node.output, outs):
        if name == "":
            continue
        if name in scope.vals:
            raise ModelInvalid(f"value '{name}' defined twice in one scope")
        _check_size(v)
        scope.vals[name] = v
    if len(node.output) > len(outs):
        for name in node.output[len(outs):]:
            if name != "":
                raise NotEncodable(f"output {name} of {node.op_type} not modelled")


def _unknown_elementwise(ctx, node, ins, at):
    key = node.op_type + "|" + ";".join(f"{k}={at[k]!r}" for k in sorted(at) if not isinstance(at[k], onnx.GraphProto))
    x = ins[0]
    return [S.map1(lambda a: S.f_un("op_" + key, a) if S.is_sym(a) else S._uf("op_" + key)(S.to_z3_real(a)), x)]


def run_model(model: onnx.ModelProto, inputs: dict, unroll=8, trace=False, unknown_elementwise_as_uf=False):
    """inputs: name -> T.  Returns (outputs list[T], ctx)."""
    opset = 0
    for imp in model.opset_import:
        if imp.domain in ("", "ai.onnx"):
            opset = imp.version
    fns = {(f.domain, f.name): f for f in model.functions}
    ctx = Ctx(opset, fns, unroll=unroll)
    ctx.unknown_elementwise_as_uf = unknown_elementwise_as_uf
    sc = Scope(None)
    init_names = {i.name for i in model.graph.initializer}
    for gi in model.graph.input:
        if gi.name in init_names:
            continue
        if gi.name not in inputs:
            raise ModelInvalid(f"graph input {gi.name} not fed")
        sc.vals[gi.name] = inputs[gi.name]
    outs = eval_graph(ctx, model.graph, sc, top=True)
    if trace:
        ctx.trace = dict(sc.vals)
    return outs, ctx
