"""A5: control-flow programs (cond / switch / while_loop / fori_loop / scan) whose predicate,
bounds and data are inputs, so the solver chooses the branch and the trip count."""
import functools

import numpy as np

F32, I32, BOOL = np.float32, np.int32, np.bool_


def register(reg, P):
    import jax
    import jax.numpy as jnp
    from jax import lax

    fam = {}

    fam["cond_pred_gt"] = (lambda x: lax.cond(x[0] > 0.5, lambda a: a + 1.0, lambda a: a * 2.0, x), [((3,), F32)])
    fam["cond_pred_bool_input"] = (lambda p, x: lax.cond(p, lambda a: a - 1.0, lambda a: -a, x), [((), BOOL), ((3,), F32)])
    fam["cond_pred_int"] = (lambda i, x: lax.cond(i > 2, lambda a: a + 10.0, lambda a: a - 10.0, x), [((), I32), ((2,), F32)])
    fam["cond_two_operands"] = (lambda x, y: lax.cond(x.sum() > y.sum(), lambda a, b: a - b, lambda a, b: b * a, x, y), [((3,), F32), ((3,), F32)])
    fam["cond_two_outputs"] = (lambda x: lax.cond(x[0] > 0, lambda a: (a, a.sum()), lambda a: (-a, a.max()), x), [((3,), F32)])
    fam["cond_capture_const"] = (lambda x: lax.cond(x[0] > 0, lambda a: a + jnp.array([1.0, 2.0, 3.0]), lambda a: a * jnp.array([3.0, 2.0, 1.0]), x), [((3,), F32)])
    fam["cond_capture_tracer"] = (lambda x, y: lax.cond(x[0] > 0, lambda a: a + y, lambda a: a - y, x), [((3,), F32), ((3,), F32)])

    def nested(x):
        return lax.cond(x[0] > 0, lambda a: lax.cond(a[1] > 0, lambda b: b + 1.0, lambda b: b - 1.0, a), lambda a: a * 3.0, x)

    fam["cond_nested"] = (nested, [((3,), F32)])
    fam["cond_int_result"] = (lambda i: lax.cond(i % 2 == 0, lambda a: a // 2, lambda a: 3 * a + 1, i), [((), I32)])
    fam["switch2"] = (lambda i, x: lax.switch(i, [lambda a: a + 1.0, lambda a: a * 2.0], x), [((), I32), ((2,), F32)])
    fam["switch3"] = (lambda i, x: lax.switch(i, [lambda a: a + 1.0, lambda a: a * 2.0, lambda a: -a], x), [((), I32), ((2,), F32)])
    fam["switch3_clamped"] = (lambda i, x: lax.switch(jnp.clip(i, 0, 2), [lambda a: a + 1.0, lambda a: a * 2.0, lambda a: -a], x), [((), I32), ((2,), F32)])
    fam["jnp_where_branch"] = (lambda x: jnp.where(x.sum() > 0, x + 1.0, x - 1.0), [((3,), F32)])

    # while loops: data-dependent exit
    fam["while_counter"] = (lambda n: lax.while_loop(lambda s: s[0] < n, lambda s: (s[0] + 1, s[1] * 2), (jnp.int32(0), jnp.int32(1)))[1], [((), I32)])
    fam["while_data_exit"] = (lambda x: lax.while_loop(lambda s: s.sum() < 4.0, lambda s: s + 1.0, x), [((2,), F32)])
    fam["while_zero_trips"] = (lambda x: lax.while_loop(lambda s: s[0] < 0.0, lambda s: s + 1.0, jnp.abs(x)), [((2,), F32)])
    fam["while_two_carries"] = (lambda x, k: lax.while_loop(lambda s: s[1] < k, lambda s: (s[0] * 0.5 + 1.0, s[1] + 1), (x, jnp.int32(0)))[0], [((2, 2), F32), ((), I32)])
    fam["while_captured"] = (lambda x, y: lax.while_loop(lambda s: s[0] < 3, lambda s: (s[0] + 1, s[1] + y), (jnp.int32(0), x))[1], [((2,), F32), ((2,), F32)])
    fam["while_int_halving"] = (lambda n: lax.while_loop(lambda s: s[0] > 1, lambda s: (s[0] // 2, s[1] + 1), (n, jnp.int32(0)))[1], [((), I32)])
    fam["while_cond_in_body"] = (lambda x, k: lax.while_loop(lambda s: s[1] < k, lambda s: (lax.cond(s[0][0] > 1.0, lambda a: a - 1.0, lambda a: a * 2.0, s[0]), s[1] + 1), (x, jnp.int32(0)))[0], [((2,), F32), ((), I32)])

    # fori loops
    for n in (0, 1, 3):
        fam[f"fori_static_{n}"] = ((lambda n: (lambda x: lax.fori_loop(0, n, lambda i, a: a * 2.0 + i, x)))(n), [((2,), F32)])
    fam["fori_static_neg_lower"] = (lambda x: lax.fori_loop(-3, 2, lambda i, a: a * 2.0 + i, x), [((2,), F32)])
    fam["fori_static_neg_both"] = (lambda x: lax.fori_loop(-4, -1, lambda i, a: a + i.astype(jnp.float32) * a, x), [((2,), F32)])
    fam["fori_static_empty_rev"] = (lambda x: lax.fori_loop(3, 1, lambda i, a: a * 2.0 + i, x), [((2,), F32)])
    fam["fori_static_lower_eq_upper"] = (lambda x: lax.fori_loop(2, 2, lambda i, a: a * 2.0 + i, x), [((2,), F32)])
    fam["fori_index_as_gather"] = (lambda x: lax.fori_loop(1, 3, lambda i, a: a + x[i], jnp.zeros(())), [((4,), F32)])
    fam["fori_two_carries"] = (lambda x: lax.fori_loop(0, 3, lambda i, s: (s[1] + i, s[0] * 2.0), (x, x + 1.0))[0], [((2,), F32)])
    fam["scan_index_carry"] = (lambda xs: lax.scan(lambda c, a: ((c[0] + 1, c[1] + a * c[0]), c[1]), (jnp.int32(-2), 0.0), xs)[1], [((3,), F32)])
    fam["while_negative_counter"] = (lambda x, n: lax.while_loop(lambda s: s[0] < n, lambda s: (s[0] + 1, s[1] + s[0].astype(jnp.float32)), (jnp.int32(-3), x))[1], [((2,), F32), ((), I32)])
    fam["cond_index_negative"] = (lambda i, x: lax.cond(i < 0, lambda a: a - 1.0, lambda a: a + 1.0, x), [((), I32), ((2,), F32)])
    fam["switch2_out_of_range"] = (lambda i, x: lax.switch(i, [lambda a: a + 1.0, lambda a: a * 2.0], x) - 1.0, [((), I32), ((2,), F32)])
    fam["fori_static_lower2"] = (lambda x: lax.fori_loop(2, 5, lambda i, a: a + i, x), [((2,), F32)])
    fam["fori_dynamic_upper"] = (lambda x, n: lax.fori_loop(0, n, lambda i, a: a + 1.0, x), [((2,), F32), ((), I32)])
    fam["fori_dynamic_both"] = (lambda x, lo, hi: lax.fori_loop(lo, hi, lambda i, a: a + i.astype(jnp.float32), x), [((2,), F32), ((), I32), ((), I32)])
    fam["fori_index_use"] = (lambda x: lax.fori_loop(0, 3, lambda i, a: a.at[i].add(1.0), x), [((3,), F32)])

    # scans
    for L in (0, 1, 2, 3):
        fam[f"scan_carry_ys_L{L}"] = (lambda xs: lax.scan(lambda c, a: (c + a, c * a), 0.0, xs), [((L,), F32)])
    fam["scan_two_xs"] = (lambda xs, ys: lax.scan(lambda c, ab: (c + ab[0] * ab[1], c - ab[1]), 1.0, (xs, ys)), [((3,), F32), ((3,), F32)])
    fam["scan_const"] = (lambda xs, k: lax.scan(lambda c, a: (c * k + a, c), 0.5, xs), [((3,), F32), ((), F32)])
    fam["scan_vec_carry"] = (lambda xs, c0: lax.scan(lambda c, a: (c + a, c.sum()), c0, xs), [((2, 3), F32), ((3,), F32)])
    fam["scan_reverse"] = (lambda xs: lax.scan(lambda c, a: (c + a, c * a), 0.0, xs, reverse=True), [((3,), F32)])
    fam["scan_unroll2"] = (lambda xs: lax.scan(lambda c, a: (c + a, c * a), 0.0, xs, unroll=2), [((4,), F32)])
    # reverse scans: either rejected loudly or exported with the stacked outputs filled back to front
    fam["scan_reverse_no_xs"] = (lambda x: lax.scan(lambda c, _: (c * 2.0 + 1.0, c), x, None, length=4, reverse=True), [((2,), F32)])
    fam["scan_reverse_no_xs_ys_only"] = (lambda x: lax.scan(lambda c, _: (c + 1.0, c * c), x, None, length=3, reverse=True)[1], [((), F32)])
    fam["scan_reverse_two_xs"] = (lambda xs, ys: lax.scan(lambda c, ab: (c + ab[0], c * ab[1]), 0.5, (xs, ys), reverse=True), [((3,), F32), ((3,), F32)])
    # batched control flow: examples of one batch leave the loop at different steps (masked carries)
    fam["vmap_while_nonmonotone"] = (jax.vmap(lambda v: lax.while_loop(lambda s: (s[0] % 4 != 3) & (s[1] < 6), lambda s: (s[0] + 1, s[1] + 1), (v, jnp.int32(0)))), [((3,), I32)])
    fam["vmap_while_reentrant"] = (jax.vmap(lambda v: lax.while_loop(lambda s: ((s[0] < 1.0) | ((s[0] > 2.0) & (s[0] < 3.0))) & (s[1] < 5), lambda s: (s[0] + 1.0, s[1] + 1), (v, jnp.int32(0)))), [((3,), F32)])
    fam["vmap_while_monotone"] = (jax.vmap(lambda v: lax.while_loop(lambda s: s < 3.0, lambda s: s + 1.0, v)), [((3,), F32)])
    fam["vmap_while_flipflop"] = (jax.vmap(lambda v: lax.while_loop(lambda s: (jnp.abs(s[0]) > 0.5) & (s[1] < 4), lambda s: (-s[0] * 0.5, s[1] + 1), (v, jnp.int32(0)))[0]), [((3,), F32)])
    fam["vmap_cond_pred"] = (jax.vmap(lambda v: lax.cond(v > 0.0, lambda a: a * 2.0, lambda a: a - 1.0, v)), [((3,), F32)])
    fam["vmap_fori_dyn_upper"] = (jax.vmap(lambda v, n: lax.fori_loop(0, n, lambda i, a: a * 2.0 + 1.0, v)), [((3,), F32), ((3,), I32)])
    fam["scan_no_xs"] = (lambda x: lax.scan(lambda c, _: (c * 2.0, c), x, None, length=3), [((2,), F32)])
    fam["scan_int_carry"] = (lambda xs: lax.scan(lambda c, a: (c + a, c), jnp.int32(0), xs), [((3,), I32)])
    fam["scan_cond_inside"] = (lambda xs: lax.scan(lambda c, a: (lax.cond(a > 0, lambda u: u + a, lambda u: u - a, c), c), 0.0, xs), [((3,), F32)])
    fam["scan_multi_carry"] = (lambda xs: lax.scan(lambda c, a: ((c[0] + a, c[1] * a), c[0] - c[1]), (0.0, 1.0), xs), [((3,), F32)])
    fam["cumsum_via_scan"] = (lambda xs: lax.associative_scan(jnp.add, xs), [((4,), F32)])
    fam["loop_in_cond"] = (lambda x: lax.cond(x[0] > 0, lambda a: lax.fori_loop(0, 2, lambda i, b: b + 1.0, a), lambda a: a, x), [((2,), F32)])
    fam["while_in_scan"] = (lambda xs: lax.scan(lambda c, a: (lax.while_loop(lambda s: s < a, lambda s: s + 1.0, c), c), 0.0, xs), [((2,), F32)])

    for name, (fn, specs) in fam.items():
        reg("A5", name, functools.partial(P, fn, specs))
