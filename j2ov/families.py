"""Generated program families (G).  Every member has a stable id `G/<family>/<name>`."""
from __future__ import annotations

import functools

import numpy as np

from .pipeline import Program

_F = {}  # family -> {name: (builder, tier)}


def _reg(family, name, build, tier="quick"):
    _F.setdefault(family, {})[name] = (build, tier)


def ids(family, tier="quick"):
    _build_all()
    out = []
    for name, (b, t) in sorted(_F.get(family, {}).items()):
        if t == "quick" or tier == "thorough":
            out.append(f"G/{family}/{name}")
    return out


def program(pid) -> Program:
    _build_all()
    _, family, name = pid.split("/", 2)
    build, _ = _F[family][name]
    p = build()
    p.pid = pid
    return p


_built = False


def _build_all():
    global _built
    if _built:
        return
    _built = True
    _a1()
    _a2()
    _a4()
    _a5()
    _a6()
    _a7()
    _a8()
    _a10()


F32, I32, I64, U8, BOOL, F16 = np.float32, np.int32, np.int64, np.uint8, np.bool_, np.float16


def late(fn):
    """Library functions referenced directly (jnp.floor_divide, jax.nn.relu, ...) must be looked up
    at CALL time: the converter substitutes module attributes while tracing, and a function object
    captured when the family table was built would bypass the substitute (and its plugin)."""
    if getattr(fn, "__name__", "<lambda>") == "<lambda>" or not callable(fn):
        return fn
    import jax
    import jax.numpy as jnp

    for mod in (jnp, jax.nn, jax.lax, jnp.linalg):
        if getattr(mod, fn.__name__, None) is fn:
            return (lambda m, n: (lambda *a, **k: getattr(m, n)(*a, **k)))(mod, fn.__name__)
    return fn


def P(fn, specs, **kw):
    return Program(pid="", fn=late(fn), specs=[(tuple(s), np.dtype(d)) for s, d in specs], **kw)


# --------------------------------------------------------------------------- A1 elementwise

def _a1():
    import jax
    import jax.numpy as jnp
    from jax import lax

    un_f = {
        "lax.neg": lax.neg, "lax.abs": lax.abs, "lax.sign": lax.sign, "lax.floor": lax.floor, "lax.ceil": lax.ceil,
        "lax.round_away": lambda x: lax.round(x), "lax.round_even": lambda x: lax.round(x, lax.RoundingMethod.TO_NEAREST_EVEN),
        "lax.exp": lax.exp, "lax.log": lax.log, "lax.sqrt": lax.sqrt, "lax.rsqrt": lax.rsqrt, "lax.tanh": lax.tanh,
        "lax.logistic": lax.logistic, "lax.sin": lax.sin, "lax.cos": lax.cos, "lax.tan": lax.tan, "lax.asin": lax.asin,
        "lax.acos": lax.acos, "lax.atan": lax.atan, "lax.sinh": lax.sinh, "lax.cosh": lax.cosh, "lax.asinh": lax.asinh,
        "lax.acosh": lax.acosh, "lax.atanh": lax.atanh, "lax.erf": lax.erf, "lax.erfc": lax.erfc, "lax.expm1": lax.expm1,
        "lax.log1p": lax.log1p, "lax.exp2": lax.exp2, "lax.square": lax.square, "lax.cbrt": lax.cbrt,
        "lax.is_finite": lax.is_finite, "lax.integer_pow3": lambda x: lax.integer_pow(x, 3),
        "lax.integer_pow_m2": lambda x: lax.integer_pow(x, -2), "lax.reciprocal": lambda x: lax.reciprocal(x),
        "jnp.round": jnp.round, "jnp.rint": jnp.rint, "jnp.trunc": jnp.trunc, "jnp.fix": getattr(jnp, "fix", None), "jnp.sign": jnp.sign,
        "jnp.abs": jnp.abs, "jnp.square": jnp.square, "jnp.reciprocal": jnp.reciprocal, "jnp.negative": jnp.negative,
        "jnp.floor": jnp.floor, "jnp.ceil": jnp.ceil, "jnp.exp2": jnp.exp2, "jnp.log2": jnp.log2, "jnp.log10": jnp.log10,
        "jnp.round1": lambda x: jnp.round(x, 1), "jnp.clip01": lambda x: jnp.clip(x, 0.0, 1.0),
        "jnp.clip_lo": lambda x: jnp.clip(x, -0.5, None), "jnp.where_gt0": lambda x: jnp.where(x > 0, x, 0.0),
        "jnp.where_neg": lambda x: jnp.where(x < 0.5, -x, x * 2), "jnp.sinc": jnp.sinc,
        "jnp.floor_to_int": lambda x: jnp.floor(x).astype(jnp.int32), "jnp.astype_i32": lambda x: x.astype(jnp.int32),
        "jnp.heaviside_half": lambda x: jnp.heaviside(x, 0.5), "jnp.isnan": jnp.isnan, "jnp.nan_to_num": jnp.nan_to_num,
        "nn.relu": jax.nn.relu, "nn.relu6": jax.nn.relu6, "nn.sigmoid": jax.nn.sigmoid, "nn.softplus": jax.nn.softplus,
        "nn.soft_sign": jax.nn.soft_sign, "nn.silu": jax.nn.silu, "nn.gelu_tanh": lambda x: jax.nn.gelu(x, approximate=True),
        "nn.gelu_erf": lambda x: jax.nn.gelu(x, approximate=False), "nn.elu": jax.nn.elu, "nn.elu_a2": lambda x: jax.nn.elu(x, 2.0),
        "nn.selu": jax.nn.selu, "nn.celu": jax.nn.celu, "nn.celu_a2": lambda x: jax.nn.celu(x, 2.0),
        "nn.leaky_relu": jax.nn.leaky_relu, "nn.leaky_relu_02": lambda x: jax.nn.leaky_relu(x, 0.2),
        "nn.hard_tanh": jax.nn.hard_tanh, "nn.hard_sigmoid": jax.nn.hard_sigmoid, "nn.hard_swish": jax.nn.hard_swish,
        "nn.log_sigmoid": jax.nn.log_sigmoid, "nn.mish": jax.nn.mish, "nn.squareplus": jax.nn.squareplus,
        "nn.softmax": jax.nn.softmax, "nn.log_softmax": jax.nn.log_softmax, "nn.softmax_ax0": lambda x: jax.nn.softmax(x, axis=0),
        "nn.standardize": jax.nn.standardize, "nn.glu": None, "nn.sparse_plus": jax.nn.sparse_plus, "nn.hard_silu": jax.nn.hard_silu,
        "nn.relu_sq": lambda x: jax.nn.relu(x) ** 2,
    }
    for name, fn in un_f.items():
        if fn is None:
            continue
        _reg("A1", f"{name}/f32_3", functools.partial(P, fn, [((3,), F32)]))
        _reg("A1", f"{name}/f32_2x3", functools.partial(P, fn, [((2, 3), F32)]), tier="thorough")
    un_i = {
        "lax.neg": lax.neg, "lax.abs": lax.abs, "lax.sign": lax.sign, "lax.square": lax.square,
        "lax.integer_pow3": lambda x: lax.integer_pow(x, 3), "jnp.abs": jnp.abs, "jnp.sign": jnp.sign,
        "jnp.negative": jnp.negative, "jnp.square": jnp.square, "jnp.clip": lambda x: jnp.clip(x, -2, 5),
        "jnp.astype_f32": lambda x: x.astype(jnp.float32), "jnp.astype_bool": lambda x: x.astype(jnp.bool_),
        "jnp.astype_i8": lambda x: x.astype(jnp.int8), "jnp.astype_u8": lambda x: x.astype(jnp.uint8),
        "jnp.where_even": lambda x: jnp.where(x % 2 == 0, x, -x), "jnp.mod3": lambda x: x % 3,
        "jnp.floordiv3": lambda x: x // 3, "jnp.floordiv_m3": lambda x: x // -3, "jnp.mod_m3": lambda x: x % -3,
        "lax.div3": lambda x: lax.div(x, 3), "lax.rem3": lambda x: lax.rem(x, 3), "lax.div_m2": lambda x: lax.div(x, -2),
        "jnp.mul_big": lambda x: x * 65537, "jnp.add_max": lambda x: x + 2147483647,
    }
    for name, fn in un_i.items():
        _reg("A1", f"{name}/i32_3", functools.partial(P, fn, [((3,), I32)]))
    un_u = {"jnp.sub1": lambda x: x - 1, "jnp.mul7": lambda x: x * 7, "jnp.neg": jnp.negative, "jnp.div3": lambda x: x // 3,
            "jnp.astype_i32": lambda x: x.astype(jnp.int32), "jnp.astype_f32": lambda x: x.astype(jnp.float32)}
    for name, fn in un_u.items():
        _reg("A1", f"{name}/u8_3", functools.partial(P, fn, [((3,), U8)]))
    un_b = {"lax.not": lambda x: lax.bitwise_not(x), "jnp.logical_not": jnp.logical_not, "jnp.astype_i32": lambda x: x.astype(jnp.int32),
            "jnp.astype_f32": lambda x: x.astype(jnp.float32), "jnp.where": lambda x: jnp.where(x, 1.5, -2.0)}
    for name, fn in un_b.items():
        _reg("A1", f"{name}/bool_3", functools.partial(P, fn, [((3,), BOOL)]))

    bin_f = {
        "lax.add": lax.add, "lax.sub": lax.sub, "lax.mul": lax.mul, "lax.div": lax.div, "lax.max": lax.max, "lax.min": lax.min,
        "lax.pow": lax.pow, "lax.atan2": lax.atan2, "lax.rem": lax.rem, "lax.eq": lax.eq, "lax.ne": lax.ne, "lax.lt": lax.lt,
        "lax.le": lax.le, "lax.gt": lax.gt, "lax.ge": lax.ge, "jnp.floor_divide": jnp.floor_divide, "jnp.remainder": jnp.remainder,
        "jnp.mod": jnp.mod, "jnp.fmod": jnp.fmod, "jnp.maximum": jnp.maximum, "jnp.minimum": jnp.minimum,
        "jnp.where_lt": lambda x, y: jnp.where(x < y, x, y), "jnp.clip_sym": lambda x, y: jnp.clip(x, -jnp.abs(y), jnp.abs(y)),
        "jnp.power": jnp.power, "jnp.true_divide": jnp.true_divide, "jnp.hypot": jnp.hypot, "jnp.logaddexp": jnp.logaddexp,
        "jnp.copysign": jnp.copysign, "jnp.heaviside": jnp.heaviside, "jnp.subtract": jnp.subtract, "jnp.multiply": jnp.multiply,
        "jnp.add": jnp.add, "jnp.divide": jnp.divide, "jnp.fmax": jnp.fmax, "jnp.fmin": jnp.fmin, "jnp.arctan2": jnp.arctan2,
        "jnp.select3": lambda x, y: jnp.select([x > 1, x < -1], [y, -y], 0.0), "lax.clamp": lambda x, y: lax.clamp(-1.0, x * y, 1.0),
        "lax.select": lambda x, y: lax.select(x > y, x, y), "jnp.dot": jnp.dot, "jnp.vdot": jnp.vdot, "jnp.outer": jnp.outer,
        "jnp.isclose": jnp.isclose, "jnp.square_diff": lambda x, y: (x - y) ** 2,
    }
    for name, fn in bin_f.items():
        _reg("A1", f"{name}/f32_3_3", functools.partial(P, fn, [((3,), F32), ((3,), F32)]))
        if name not in ("jnp.dot", "jnp.vdot", "jnp.outer"):
            _reg("A1", f"{name}/f32_2x3_3", functools.partial(P, fn, [((2, 3), F32), ((3,), F32)]), tier="thorough")
    bin_i = {
        "lax.add": lax.add, "lax.sub": lax.sub, "lax.mul": lax.mul, "lax.div": lax.div, "lax.rem": lax.rem, "lax.max": lax.max,
        "lax.min": lax.min, "lax.eq": lax.eq, "lax.lt": lax.lt, "lax.ge": lax.ge, "jnp.floor_divide": jnp.floor_divide,
        "jnp.remainder": jnp.remainder, "jnp.mod": jnp.mod, "jnp.fmod": jnp.fmod, "jnp.maximum": jnp.maximum,
        "jnp.where_lt": lambda x, y: jnp.where(x < y, x, y), "jnp.true_divide": jnp.true_divide, "jnp.power2": lambda x, y: x ** 2 + y,
        "jnp.add": jnp.add, "jnp.subtract": jnp.subtract, "jnp.multiply": jnp.multiply, "jnp.divmod0": lambda x, y: jnp.divmod(x, y)[0],
        "jnp.divmod1": lambda x, y: jnp.divmod(x, y)[1], "jnp.clip_xy": lambda x, y: jnp.clip(x, y, y + 3),
    }
    for name, fn in bin_i.items():
        _reg("A1", f"{name}/i32_3_3", functools.partial(P, fn, [((3,), I32), ((3,), I32)]))
    for name in ("lax.add", "lax.sub", "lax.mul", "lax.div", "lax.rem", "lax.max", "lax.lt", "jnp.floor_divide", "jnp.remainder"):
        _reg("A1", f"{name}/u8_3_3", functools.partial(P, bin_i[name], [((3,), U8), ((3,), U8)]))
        _reg("A1", f"{name}/i64_2_2", functools.partial(P, bin_i[name], [((2,), I64), ((2,), I64)], config={"enable_double_precision": True}), tier="thorough")
    bin_b = {"lax.and": lax.bitwise_and, "lax.or": lax.bitwise_or, "lax.xor": lax.bitwise_xor, "jnp.logical_and": jnp.logical_and,
             "jnp.logical_or": jnp.logical_or, "jnp.logical_xor": jnp.logical_xor, "lax.eq": lax.eq, "lax.ne": lax.ne,
             "jnp.where": lambda x, y: jnp.where(x, y, ~y)}
    for name, fn in bin_b.items():
        _reg("A1", f"{name}/bool_3_3", functools.partial(P, fn, [((3,), BOOL), ((3,), BOOL)]))
    # mixed / reductions / structural compositions
    mixed = {
        "sum_ax0": (lambda x: jnp.sum(x, axis=0), [((2, 3), F32)]),
        "mean_ax1_keep": (lambda x: jnp.mean(x, axis=1, keepdims=True), [((2, 3), F32)]),
        "max_all": (lambda x: jnp.max(x), [((2, 3), F32)]),
        "min_ax1": (lambda x: jnp.min(x, axis=1), [((2, 3), F32)]),
        "prod_ax0": (lambda x: jnp.prod(x, axis=0), [((2, 3), F32)]),
        "sum_int": (lambda x: jnp.sum(x, axis=1), [((2, 3), I32)]),
        "prod_int": (lambda x: jnp.prod(x, axis=1), [((2, 3), I32)]),
        "any_all": (lambda x: (jnp.any(x, axis=0), jnp.all(x, axis=1)), [((2, 3), BOOL)]),
        "var": (lambda x: jnp.var(x, axis=1), [((2, 3), F32)]),
        "std": (lambda x: jnp.std(x, axis=0), [((2, 3), F32)]),
        "argmax": (lambda x: jnp.argmax(x, axis=1), [((2, 3), F32)]),
        "argmin": (lambda x: jnp.argmin(x, axis=0), [((2, 3), F32)]),
        "argmax_int": (lambda x: jnp.argmax(x), [((4,), I32)]),
        "cumsum": (lambda x: jnp.cumsum(x, axis=1), [((2, 3), F32)]),
        "cumsum_rev": (lambda x: lax.cumsum(x, axis=0, reverse=True), [((3,), F32)]),
        "cumsum_int": (lambda x: jnp.cumsum(x), [((4,), I32)]),
        "cumprod": (lambda x: jnp.cumprod(x, axis=0), [((3,), F32)]),
        "cummax": (lambda x: lax.cummax(x, axis=0), [((4,), F32)]),
        "cummin_rev": (lambda x: lax.cummin(x, axis=0, reverse=True), [((4,), F32)]),
        "sort": (lambda x: jnp.sort(x), [((4,), F32)]),
        "sort_desc": (lambda x: jnp.sort(x, descending=True), [((4,), F32)]),
        "argsort": (lambda x: jnp.argsort(x), [((4,), F32)]),
        "top_k": (lambda x: lax.top_k(x, 2), [((4,), F32)]),
        "transpose": (lambda x: jnp.transpose(x, (1, 0, 2)), [((2, 3, 2), F32)]),
        "reshape": (lambda x: x.reshape(3, 2), [((2, 3), F32)]),
        "flip": (lambda x: jnp.flip(x, axis=1), [((2, 3), F32)]),
        "concat": (lambda x, y: jnp.concatenate([x, y], axis=0), [((2, 3), F32), ((1, 3), F32)]),
        "stack": (lambda x, y: jnp.stack([x, y], axis=1), [((3,), F32), ((3,), F32)]),
        "tile": (lambda x: jnp.tile(x, (2, 1)), [((2, 3), F32)]),
        "pad": (lambda x: jnp.pad(x, ((1, 0), (0, 2))), [((2, 3), F32)]),
        "pad_val": (lambda x: jnp.pad(x, 1, constant_values=2.5), [((3,), F32)]),
        "pad_reflect": (lambda x: jnp.pad(x, 1, mode="reflect"), [((3,), F32)]),
        "pad_edge": (lambda x: jnp.pad(x, 2, mode="edge"), [((3,), F32)]),
        "slice": (lambda x: x[1:, ::2], [((3, 4), F32)]),
        "slice_neg": (lambda x: x[::-1, -2:], [((3, 4), F32)]),
        "squeeze": (lambda x: jnp.squeeze(x, 1), [((2, 1, 3), F32)]),
        "expand": (lambda x: jnp.expand_dims(x, (0, 2)), [((3,), F32)]),
        "broadcast_to": (lambda x: jnp.broadcast_to(x, (2, 3)), [((3,), F32)]),
        "matmul": (lambda x, y: x @ y, [((2, 3), F32), ((3, 2), F32)]),
        "matmul_int": (lambda x, y: x @ y, [((2, 2), I32), ((2, 2), I32)]),
        "einsum": (lambda x, y: jnp.einsum("ij,kj->ik", x, y), [((2, 3), F32), ((2, 3), F32)]),
        "tensordot": (lambda x, y: jnp.tensordot(x, y, axes=1), [((2, 3), F32), ((3, 2), F32)]),
        "arange_add": (lambda x: x + jnp.arange(3, dtype=jnp.float32), [((3,), F32)]),
        "linspace_mul": (lambda x: x * jnp.linspace(0.0, 1.0, 3), [((3,), F32)]),
        "eye_mul": (lambda x: x * jnp.eye(3), [((3, 3), F32)]),
        "tril": (lambda x: jnp.tril(x), [((3, 3), F32)]),
        "triu1": (lambda x: jnp.triu(x, 1), [((3, 3), F32)]),
        "diag": (lambda x: jnp.diagonal(x), [((3, 3), F32)]),
        "trace": (lambda x: jnp.trace(x), [((3, 3), F32)]),
        "roll": (lambda x: jnp.roll(x, 1), [((4,), F32)]),
        "repeat": (lambda x: jnp.repeat(x, 2), [((3,), F32)]),
        "maximum_scalar": (lambda x: jnp.maximum(x, 0.25), [((3,), F32)]),
        "int_float_mix": (lambda x, y: x * y.astype(jnp.float32), [((3,), F32), ((3,), I32)]),
        "bool_to_mask": (lambda x, m: jnp.where(m, x, -jnp.inf).max(), [((3,), F32), ((3,), BOOL)]),
        "count_nonzero": (lambda x: jnp.count_nonzero(x), [((4,), I32)]),
        "diff": (lambda x: jnp.diff(x), [((4,), F32)]),
        "ptp": (lambda x: jnp.ptp(x), [((4,), F32)]),
        "average": (lambda x: jnp.average(x), [((4,), F32)]),
        "dot_ff": (lambda x, y: jnp.dot(x, y), [((2, 3), F32), ((3,), F32)]),
        "round_div": (lambda x: jnp.round(x / 2), [((3,), F32)]),
        "lax_round_chain": (lambda x: lax.round(x * 2.0) / 2.0, [((3,), F32)]),
        "sign_abs": (lambda x: jnp.sign(x) * jnp.abs(x), [((3,), F32)]),
        "floor_mod_chain": (lambda x, y: jnp.floor_divide(x, y) * y + jnp.mod(x, y), [((3,), I32), ((3,), I32)]),
        "int_trunc_chain": (lambda x, y: lax.div(x, y) * y + lax.rem(x, y), [((3,), I32), ((3,), I32)]),
    }
    for name, (fn, specs) in mixed.items():
        _reg("A1", f"mix.{name}", functools.partial(P, fn, specs))
    # broadcasting combinations (either operand may be the broadcast-larger one)
    bops = {"add": jnp.add, "mul": jnp.multiply, "sub": jnp.subtract, "div": jnp.divide, "pow": jnp.power, "max": jnp.maximum, "min": jnp.minimum,
            "where": lambda a, b: jnp.where(a > b, a, b), "atan2": jnp.arctan2, "lt": jnp.less, "fmod": jnp.fmod, "clip": lambda a, b: jnp.clip(a, -1.0, b),
            "lax_add": lax.add if False else (lambda a, b: a + b), "hypot": jnp.hypot, "logaddexp": jnp.logaddexp}
    combos = {"s_23": ((), (2, 3)), "23_s": ((2, 3), ()), "13_43": ((1, 3), (4, 3)), "43_13": ((4, 3), (1, 3)), "3_243": ((3,), (2, 4, 3)), "243_3": ((2, 4, 3), (3,)),
              "41_13": ((4, 1), (1, 3)), "B3_13": (("B", 3), (1, 3)), "13_B3": ((1, 3), ("B", 3))}
    for on, f in bops.items():
        for cn, (sa, sb) in combos.items():
            _reg("A1", f"bc.{on}/{cn}", functools.partial(P, f, [(sa, F32), (sb, F32)]), tier="quick" if on in ("add", "pow", "where", "max", "div", "clip") else "thorough")
    # mixed integer/float operands: jnp promotes with JAX's lattice (int32 x float32 -> float32),
    # a lowering that skips the promotion emits an ill-typed node, one that uses NumPy's lattice
    # computes in float64
    mdt = {"add": jnp.add, "sub": jnp.subtract, "mul": jnp.multiply, "div": jnp.divide, "max": jnp.maximum, "min": jnp.minimum, "pow": jnp.power,
           "eq": jnp.equal, "ne": jnp.not_equal, "lt": jnp.less, "le": jnp.less_equal, "gt": jnp.greater, "ge": jnp.greater_equal,
           "where": lambda a, b: jnp.where(b > 2, a, b), "atan2": jnp.arctan2, "fmod": jnp.fmod, "rem": jnp.remainder, "hypot": jnp.hypot,
           "copysign": jnp.copysign, "outer": jnp.outer, "dot": jnp.dot, "matmul": jnp.matmul, "concat": lambda a, b: jnp.concatenate([a, b]),
           "op_add": lambda a, b: a + b, "op_mul": lambda a, b: a * b, "op_lt": lambda a, b: a < b, "lax_max": lambda a, b: jnp.maximum(a.astype(b.dtype), b)}
    for on, f in mdt.items():
        _reg("A1", f"mixdt.{on}/i32_f32", functools.partial(P, f, [((3,), I32), ((3,), F32)]))
        _reg("A1", f"mixdt.{on}/f32_i32", functools.partial(P, f, [((3,), F32), ((3,), I32)]), tier="thorough")
    # double-precision mode with an EXPLICIT float32 cast in the callable: JAX (x64) keeps float32 for
    # f32 * python-scalar / f32 * float32-constant; a constant promoted to double next to it is ill-typed
    dbl = {
        "astype32_mul_py": (lambda x: x.astype(jnp.float32) * 0.5, [((3,), F32)]),
        "astype32_mul_np32": (lambda x: x.astype(jnp.float32) * np.float32(0.5), [((3,), F32)]),
        "astype32_add_arr32": (lambda x: x.astype(jnp.float32) + np.array([0.1, 0.2, 0.3], dtype=np.float32), [((3,), F32)]),
        "astype32_mul_x": (lambda x: x.astype(jnp.float32) * x, [((3,), F32)]),
        "int_to_f32_mul_py": (lambda i: i.astype(jnp.float32) * 0.5, [((3,), I32)]),
        "astype32_where": (lambda x: jnp.where(x > 0, x.astype(jnp.float32), 0.5), [((3,), F32)]),
        "astype16_mul_py": (lambda x: x.astype(jnp.float16) * 0.5, [((3,), F32)]),
    }
    for name, (fn, specs) in dbl.items():
        _reg("A1", f"dbl.{name}", functools.partial(P, fn, specs, config={"enable_double_precision": True}))
    # dot_general layouts: batch / contracting axes anywhere (operands need 3-cycle permutations to reach
    # batch-free-contract order; a permutation and its inverse differ only there)
    dots = {
        "batch_last": (lambda a, b: lax.dot_general(a, b, (((1,), (0,)), ((2,), (2,)))), [((3, 5, 2), F32), ((5, 4, 2), F32)]),
        "batch_mid_contract_first": (lambda a, b: lax.dot_general(a, b, (((0,), (2,)), ((1,), (0,)))), [((5, 2, 3), F32), ((2, 4, 5), F32)]),
        "vmap_matmul_axis2": (jax.vmap(lambda a, b: jnp.matmul(a, b), in_axes=(2, 2)), [((3, 5, 2), F32), ((5, 4, 2), F32)]),
        "vmap_matmul_axis1_0": (jax.vmap(lambda a, b: jnp.matmul(a, b), in_axes=(1, 0)), [((3, 2, 5), F32), ((2, 5, 4), F32)]),
        "einsum_bij_bjk_last": (lambda a, b: jnp.einsum("ijb,jkb->bik", a, b), [((3, 5, 2), F32), ((5, 4, 2), F32)]),
        "einsum_transposed_out": (lambda a, b: jnp.einsum("bij,bjk->kib", a, b), [((2, 3, 5), F32), ((2, 5, 4), F32)]),
        "two_contract": (lambda a, b: lax.dot_general(a, b, (((0, 2), (1, 0)), ((), ()))), [((3, 4, 5), F32), ((5, 3, 2), F32)]),
        "tensordot_axes": (lambda a, b: jnp.tensordot(a, b, axes=((0,), (2,))), [((3, 4), F32), ((2, 5, 3), F32)]),
        "batch_last_sym": (lambda a, b: lax.dot_general(a, b, (((1,), (0,)), ((2,), (2,)))), [((3, 5, "B"), F32), ((5, 4, "B"), F32)]),
    }
    for name, (fn, specs) in dots.items():
        _reg("A1", f"dot.{name}", functools.partial(P, fn, specs))
    # python-scalar operands on either side
    for on, f in {"rpow": lambda x: 0.5 ** x, "pow2": lambda x: x ** 2.0, "rsub": lambda x: 1.0 - x, "rdiv": lambda x: 2.0 / x, "rmax": lambda x: jnp.maximum(0.25, x), "rwhere": lambda x: jnp.where(x > 0, 1.0, x)}.items():
        for cn, sh in {"B3": ("B", 3), "23": (2, 3)}.items():
            _reg("A1", f"sc.{on}/{cn}", functools.partial(P, f, [(sh, F32)]))
    # depth-2 compositions over a small core (thorough)
    core = {"neg": lax.neg, "abs": lax.abs, "floor": lax.floor, "round": lambda x: lax.round(x), "relu": jax.nn.relu,
            "sign": lax.sign, "half": lambda x: x * 0.5, "inc": lambda x: x + 1.0, "sq": lax.square, "ceil": lax.ceil,
            "jround": jnp.round, "trunc": jnp.trunc}
    core = {k: late(v) for k, v in core.items()}
    for n1, f1 in core.items():
        for n2, f2 in core.items():
            _reg("A1", f"comp.{n2}.{n1}/f32_3", functools.partial(P, (lambda f1, f2: (lambda x: f2(f1(x))))(f1, f2), [((3,), F32)]), tier="thorough")


# --------------------------------------------------------------------------- A2 indexing

def _a2():
    import jax
    import jax.numpy as jnp
    from jax import lax

    S4 = [((4,), F32), ((), I32)]
    fam = {
        "getitem_scalar": (lambda x, i: x[i], S4),
        "getitem_2d_row": (lambda x, i: x[i], [((3, 2), F32), ((), I32)]),
        "getitem_2d_col": (lambda x, i: x[:, i], [((2, 3), F32), ((), I32)]),
        "getitem_vec": (lambda x, i: x[i], [((4,), F32), ((2,), I32)]),
        "take_clip": (lambda x, i: jnp.take(x, i, mode="clip"), [((4,), F32), ((2,), I32)]),
        "take_wrap": (lambda x, i: jnp.take(x, i, mode="wrap"), [((4,), F32), ((2,), I32)]),
        "take_fill": (lambda x, i: jnp.take(x, i, mode="fill", fill_value=-1.0), [((4,), F32), ((2,), I32)]),
        "take_default": (lambda x, i: jnp.take(x, i), [((4,), F32), ((2,), I32)]),
        "take_axis1": (lambda x, i: jnp.take(x, i, axis=1), [((2, 3), F32), ((2,), I32)]),
        "take_along": (lambda x, i: jnp.take_along_axis(x, i, axis=1), [((2, 3), F32), ((2, 1), I32)]),
        "dynamic_slice": (lambda x, i: lax.dynamic_slice(x, (i,), (2,)), S4),
        "dynamic_slice_2d": (lambda x, i, j: lax.dynamic_slice(x, (i, j), (2, 2)), [((3, 3), F32), ((), I32), ((), I32)]),
        "dynamic_index_in_dim": (lambda x, i: lax.dynamic_index_in_dim(x, i, 0, keepdims=False), S4),
        "dynamic_update_slice": (lambda x, u, i: lax.dynamic_update_slice(x, u, (i,)), [((4,), F32), ((2,), F32), ((), I32)]),
        "at_set": (lambda x, i: x.at[i].set(1.5), S4),
        "at_add": (lambda x, i: x.at[i].add(2.0), S4),
        "at_set_vec": (lambda x, i: x.at[i].set(0.0), [((4,), F32), ((2,), I32)]),
        "at_add_dup": (lambda x, i: x.at[i].add(1.0), [((4,), F32), ((3,), I32)]),
        "at_mul": (lambda x, i: x.at[i].multiply(3.0), S4),
        "at_max": (lambda x, i: x.at[i].max(0.5), S4),
        "at_set_const": (lambda x: x.at[1].set(9.0), [((4,), F32)]),
        "at_set_slice": (lambda x: x.at[1:3].set(0.0), [((4,), F32)]),
        "at_set_neg": (lambda x: x.at[-1].set(2.0), [((4,), F32)]),
        "one_hot": (lambda i: jax.nn.one_hot(i, 3), [((2,), I32)]),
        "one_hot_ax0": (lambda i: jax.nn.one_hot(i, 3, axis=0), [((2,), I32)]),
        "one_hot_int": (lambda i: jax.nn.one_hot(i, 4, dtype=jnp.int32), [((2,), I32)]),
        "clip_index": (lambda x, i: x[jnp.clip(i, 0, 3)], S4),
        "where_index": (lambda x, i: x[jnp.where(i < 0, 0, jnp.minimum(i, 3))], S4),
        "argmax_gather": (lambda x: x[jnp.argmax(x)], [((4,), F32)]),
        "argmax_ties": (lambda x: jnp.argmax(jnp.round(x)), [((4,), F32)]),
        "argmin_ties": (lambda x: jnp.argmin(jnp.floor(x)), [((4,), F32)]),
        "topk_ties": (lambda x: lax.top_k(jnp.round(x), 2), [((4,), F32)]),
        "sort_int": (lambda x: jnp.sort(x), [((4,), I32)]),
        "searchsorted": (lambda x, v: jnp.searchsorted(x, v), [((4,), F32), ((2,), F32)]),
        "int_getitem": (lambda x, i: x[i], [((4,), I32), ((), I32)]),
        "bool_getitem": (lambda x, i: x[i], [((4,), BOOL), ((), I32)]),
        "gather_nd": (lambda x, i, j: x[i, j], [((3, 3), F32), ((), I32), ((), I32)]),
        "iota_compare": (lambda i: (jnp.arange(4) == i).astype(jnp.float32), [((), I32)]),
        "arange_lt": (lambda x, i: jnp.where(jnp.arange(4) < i, x, 0.0), S4),
    }
    for name, (fn, specs) in fam.items():
        kw = {"meta": {"sorted_inputs": {0: "inc"}}} if name == "searchsorted" else {}
        _reg("A2", name, functools.partial(P, fn, specs, **kw))


# the remaining families are defined in their own modules and registered here lazily

def _a4():
    try:
        from . import fam_shapes

        fam_shapes.register(_reg, P)
    except ImportError:
        pass


def _a5():
    try:
        from . import fam_control

        fam_control.register(_reg, P)
    except ImportError:
        pass


def _a6():
    try:
        from . import fam_functions

        fam_functions.register(_reg, P)
    except ImportError:
        pass


def _a7():
    try:
        from . import fam_transforms

        fam_transforms.register(_reg, P)
    except ImportError:
        pass


def _a8():
    try:
        from . import fam_layout

        fam_layout.register(_reg, P)
    except ImportError:
        pass


def _a10():
    try:
        from . import fam_gated

        fam_gated.register(_reg, P)
    except ImportError:
        pass
