"""A10: components whose lowering is gated on the requested opset (Swish @24, TensorScatter @24,
RMSNormalization @23, Attention @23, ReduceSum axes input @13/18, ...), at top level AND inside
control-flow bodies / function bodies, where the nested builder must see the same requested opset."""
import functools

import numpy as np

F32, I32 = np.float32, np.int32


def register(reg, P):
    import jax
    import jax.numpy as jnp
    from jax import lax

    gated = {
        "silu": lambda x: jax.nn.silu(x),
        "dus": lambda x: lax.dynamic_update_slice(x, jnp.ones((1, 2), x.dtype) * 2.0, (1, 1)),
        "sum_axes": lambda x: jnp.sum(x, axis=1, keepdims=True) + x,
        "mean_axes": lambda x: x - jnp.mean(x, axis=0, keepdims=True),
        "window_sum": lambda x: lax.reduce_window(x, 0.0, lax.add, (1, 2), (1, 1), "VALID").sum(axis=1, keepdims=True) + x,
        "clip": lambda x: jnp.clip(x, -0.5, 0.5),
        "logsumexp": lambda x: x + jax.nn.logsumexp(x, axis=1, keepdims=True),
    }
    try:
        from flax import nnx

        rms = nnx.RMSNorm(3, rngs=nnx.Rngs(0))
        gated["rms_norm"] = lambda x: rms(x)
        gated["nnx_dpa"] = lambda x: nnx.dot_product_attention(x[None, :, None, :], x[None, :, None, :], x[None, :, None, :])[0, :, 0, :]
    except Exception:
        pass
    SH = (2, 3)
    wraps = {
        "top": lambda f: f,
        "cond": lambda f: (lambda x: lax.cond(x[0, 0] > 0.0, lambda a: f(a), lambda a: a * 2.0, x)),
        "fori": lambda f: (lambda x: lax.fori_loop(0, 2, lambda i, a: f(a), x)),
        "scan": lambda f: (lambda x: lax.scan(lambda c, _: (f(c), c.sum()), x, None, length=2)[0]),
        "while": lambda f: (lambda x: lax.while_loop(lambda s: s[0] < 2, lambda s: (s[0] + 1, f(s[1])), (jnp.int32(0), x))[1]),
        "cond_in_scan": lambda f: (lambda x: lax.scan(lambda c, _: (lax.cond(c[0, 0] > 0.0, lambda a: f(a), lambda a: a, c), c.sum()), x, None, length=2)[0]),
    }
    try:
        from jax2onnx import onnx_function

        G = globals()

        def fn_wrap(f, gn):
            # decorated callables must be module-level attributes with a unique name
            name = f"gated_body_{gn}"
            if name not in G:
                def body(x):
                    return f(x)

                body.__name__ = body.__qualname__ = name
                body.__module__ = __name__
                G[name] = body
                G[name] = onnx_function(body)
            return lambda x: G[name](x) + 1.0

        wraps["function"] = fn_wrap
    except Exception:
        pass
    for gn, gf in list(gated.items()):
        for wn, w in wraps.items():
            quick = wn in ("top", "cond", "fori") and gn in ("silu", "dus", "rms_norm", "sum_axes")
            fn = w(gf, gn) if wn == "function" else w(gf)
            reg("A10", f"{gn}/{wn}", functools.partial(P, fn, [(SH, F32)]), tier="quick" if quick else "thorough")
