"""Run CrossHair on named conditions of a harness module, one process per condition."""
from __future__ import annotations

import ast
import os
import re
import subprocess
import time

CROSSHAIR = "/verif/.venv/bin/crosshair"


def _line_of(path, func):
    tree = ast.parse(open(path).read())
    for n in ast.walk(tree):
        if isinstance(n, ast.FunctionDef) and n.name == func:
            return n.lineno + 1
    raise KeyError(func)


def run_conditions(path, funcs, timeout_s, extra_env=None, max_parallel=16):
    env = dict(os.environ)
    # an explicit PYTHONPATH (dev: a patched scratch worktree) takes precedence over /repo
    env["PYTHONPATH"] = "/verif" + (":" + env["PYTHONPATH"] if env.get("PYTHONPATH") else "") + ":/repo"
    env["PYTHONHASHSEED"] = "0"
    env.setdefault("JAX_PLATFORMS", "cpu")
    if extra_env:
        env.update(extra_env)
    procs = {}
    pending = list(funcs)
    results = {}
    start = {}
    while pending or procs:
        while pending and len(procs) < max_parallel:
            f = pending.pop(0)
            line = _line_of(path, f)
            cmd = [CROSSHAIR, "check", "--report_all", "--per_condition_timeout", str(timeout_s), "--per_path_timeout", str(max(5, timeout_s // 4)), f"{path}:{line}"]
            procs[f] = subprocess.Popen(cmd, stdout=subprocess.PIPE, stderr=subprocess.STDOUT, text=True, env=env, cwd="/verif")
            start[f] = time.time()
        for f, p in list(procs.items()):
            rc = p.poll()
            if rc is None:
                if time.time() - start[f] > timeout_s * 3 + 120:
                    p.kill()
                    results[f] = {"verdict": "timeout", "message": "killed", "wall_s": round(time.time() - start[f], 1)}
                    del procs[f]
                continue
            outp = p.stdout.read()
            results[f] = parse(outp)
            results[f]["wall_s"] = round(time.time() - start[f], 1)
            del procs[f]
        time.sleep(0.2)
    return results


def parse(outp: str):
    msg = outp.strip()
    low = msg.lower()
    if "confirmed over all paths" in low:
        v = "confirmed"
    elif "not confirmed" in low:
        v = "not_confirmed"
    elif "unable to meet precondition" in low:
        v = "unable_to_meet_precondition"
    elif re.search(r": error: false when calling", msg):
        v = "counterexample"
    elif re.search(r": error: ", msg):
        # an exception escaped the harness (e.g. the function under test changed its signature):
        # that is a harness problem, never a finding
        v = "harness_exception"
    elif msg == "":
        v = "no_output"
    else:
        v = "other"
    return {"verdict": v, "message": msg[-600:]}
