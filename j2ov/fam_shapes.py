"""A4: programs exported with named dimensions; shape arithmetic performed by the callable."""
import functools

import numpy as np

F32, I32 = np.float32, np.int32


def register(reg, P):
    import jax
    import jax.numpy as jnp
    from jax import lax

    fam = {}

    def dimval(e):
        return lax.convert_element_type(e, jnp.int32)

    fam["flatten_B3"] = (lambda x: x.reshape(-1), [(("B", 3), F32)])
    fam["flatten_BN"] = (lambda x: x.reshape(-1), [(("B", "N"), F32)])
    fam["reshape_merge"] = (lambda x: x.reshape(x.shape[0] * x.shape[1], 2), [(("B", 3, 2), F32)])
    fam["reshape_split"] = (lambda x: x.reshape(x.shape[0], 2, 3), [(("B", 6), F32)])
    fam["reshape_roundtrip_same"] = (lambda x: x.reshape(-1).reshape(x.shape), [(("B", "N"), F32)])
    fam["reshape_roundtrip_swap"] = (lambda x: x.reshape(x.shape[0] * x.shape[1]).reshape(x.shape[1], x.shape[0]), [(("B", "N"), F32)])
    fam["reshape_roundtrip_swap_relu"] = (lambda x: jax.nn.relu(x.reshape(-1)).reshape(x.shape[1], x.shape[0]), [(("B", "N"), F32)])
    fam["transpose_reshape"] = (lambda x: jnp.transpose(x).reshape(-1), [(("B", 3), F32)])
    fam["broadcast_size1"] = (lambda x, y: x + y, [(("B", 3), F32), ((1, 3), F32)])
    fam["broadcast_vec"] = (lambda x, y: x * y, [(("B", "N"), F32), (("N",), F32)])
    fam["shared_symbol"] = (lambda x, y: x @ y.T, [(("B", 3), F32), (("B", 3), F32)])
    fam["symbol_second_input"] = (lambda x, y: y * x.sum(), [((3,), F32), (("B", 3), F32)])
    fam["symbol_not_axis0"] = (lambda x: jnp.sum(x, axis=1), [((2, "B"), F32)])
    fam["concat_sym"] = (lambda x, y: jnp.concatenate([x, y], axis=0), [(("B", 3), F32), (("N", 3), F32)])
    fam["concat_self"] = (lambda x: jnp.concatenate([x, x * 2.0], axis=0), [(("B", 2), F32)])
    fam["mean_sym"] = (lambda x: jnp.mean(x, axis=0), [(("B", 3), F32)])
    fam["max_sym"] = (lambda x: jnp.max(x, axis=0), [(("B", 3), F32)])
    fam["sum_all"] = (lambda x: jnp.sum(x), [(("B", "N"), F32)])
    fam["dim_as_scale"] = (lambda x: x * dimval(x.shape[0]).astype(jnp.float32), [(("B", 2), F32)])
    fam["dim_product"] = (lambda x: x.sum() + dimval(x.shape[0] * x.shape[1]).astype(jnp.float32), [(("B", "N"), F32)])
    for c in (-5, -1, 0, 3):
        for k in (2, 3):
            fam[f"dim_floordiv_c{c}_k{k}"] = ((lambda c, k: (lambda x: x.sum() + dimval((x.shape[0] + c) // k + 4).astype(jnp.float32)))(c, k), [(("B", 2), F32)])
    for k in (2, 3):
        fam[f"dim_mod_k{k}"] = ((lambda k: (lambda x: x.sum() + dimval(x.shape[0] % k).astype(jnp.float32)))(k), [(("B", 2), F32)])
    fam["dim_affine"] = (lambda x: x.sum() + dimval(3 * x.shape[0] - 2).astype(jnp.float32), [(("B", 2), F32)])
    fam["dim_pow_plus_coeff"] = (lambda x: x.sum() + dimval(x.shape[0] ** 2 + 2 * x.shape[0]).astype(jnp.float32), [(("B", 2), F32)])
    fam["dim_pow3_mixed"] = (lambda x: x.sum() + dimval(x.shape[0] ** 3 + 3 * x.shape[0] * x.shape[1] + x.shape[1] ** 2).astype(jnp.float32), [(("B", "N"), F32)])
    fam["dim_two_syms_affine"] = (lambda x: x.sum() + dimval(2 * x.shape[0] + x.shape[1]).astype(jnp.float32), [(("B", "N"), F32)])
    fam["dim_two_syms_prod_plus"] = (lambda x: x.sum() + dimval(x.shape[0] * x.shape[1] + x.shape[1]).astype(jnp.float32), [(("B", "N"), F32)])
    fam["dim_two_syms_floordiv"] = (lambda x: x.sum() + dimval((x.shape[0] + 3 * x.shape[1]) // 2).astype(jnp.float32), [(("B", "N"), F32)])
    fam["dim_two_inputs"] = (lambda x, y: x.sum() + y.sum() + dimval(x.shape[0] * 3 + y.shape[0]).astype(jnp.float32), [(("B", 2), F32), (("N", 2), F32)])
    fam["dim_sym_axis1"] = (lambda x: x.sum() + dimval(x.shape[1] * 2 + 1).astype(jnp.float32), [((2, "N"), F32)])
    # reshapes that REORDER symbolic extents (only distinguishable when the symbols are bound differently)
    fam["reshape_swap_syms"] = (lambda x: lax.reshape(x, (x.shape[1], x.shape[0], 4)) * 2.0, [(("B", "N", 4), F32)])
    fam["reshape_swap_syms_jnp"] = (lambda x: x.reshape(x.shape[1], x.shape[0], 4) + 1.0, [(("B", "N", 4), F32)])
    fam["reshape_rotate_syms"] = (lambda x: lax.reshape(x, (4, x.shape[0], x.shape[1])) * 2.0, [(("B", "N", 4), F32)])
    fam["reshape_const_then_swap"] = (lambda x: lax.reshape(x, (2, x.shape[1], x.shape[0], 2)) * 2.0, [(("B", "N", 4), F32)])
    fam["reshape_keep_then_merge"] = (lambda x: lax.reshape(x, (x.shape[0], x.shape[1] * 4)) * 2.0, [(("B", "N", 4), F32)])
    fam["reshape_merge_then_keep"] = (lambda x: lax.reshape(x, (x.shape[0] * x.shape[1], 4)) * 2.0, [(("B", "N", 4), F32)])
    fam["reshape_swap_last"] = (lambda x: lax.reshape(x, (4, x.shape[1], x.shape[0])) * 2.0, [(("B", "N", 4), F32)])
    # broadcast_in_dim that BOTH adds rank and stretches a size-1 operand dim (intermediate Reshape)
    fam["bcast_rank_and_stretch"] = (lambda x, y: jnp.broadcast_to(y, (x.shape[0], 3, 4)) + x, [(("B", 3, 4), F32), ((3, 1), F32)])
    fam["bcast_rank_and_stretch_static"] = (lambda y: jnp.broadcast_to(y, (2, 3, 4)) * 2.0, [((3, 1), F32)])
    fam["bcast_in_dim_explicit"] = (lambda y: lax.broadcast_in_dim(y, (5, 2, 6, 4), (1, 2, 3)) * 2.0, [((2, 1, 4), F32)])
    fam["bcast_scalar_cast"] = (lambda x, s: x + jnp.broadcast_to(s.astype(jnp.float32), x.shape), [(("B", 3), F32), ((), np.int32)])
    fam["rem_size1_bcast"] = (lambda x, y: lax.rem(x, y), [((1, 3), F32), (("B", 3), F32)])
    fam["mod_size1_bcast"] = (lambda x, y: jnp.mod(x, y), [((1, 3), F32), (("B", 3), F32)])
    fam["rem_size1_bcast_static"] = (lambda x, y: jnp.fmod(x, y), [((1, 3), F32), ((4, 3), F32)])
    fam["reshape_two_syms"] = (lambda x: x.reshape(2 * x.shape[1], 2 * x.shape[0]), [(("B", "N", 4), F32)])
    # dimension expressions that determine an OUTPUT SHAPE: decided for all bindings in shape mode
    fam["bcast_dim_sum"] = (lambda x, y: jnp.broadcast_to(y, (x.shape[0] + x.shape[1], 2)) + 1.0, [(("B", "N"), F32), ((1, 2), F32)])
    fam["bcast_dim_pow"] = (lambda x, y: jnp.broadcast_to(y, (x.shape[0] ** 2 + 2 * x.shape[0], 2)) * 2.0, [(("B", 3), F32), ((1, 2), F32)])
    fam["bcast_dim_floordiv"] = (lambda x, y: jnp.broadcast_to(y, ((x.shape[0] + 3) // 2, 2)) * 2.0, [(("B", 3), F32), ((1, 2), F32)])
    fam["bcast_dim_mod"] = (lambda x, y: jnp.broadcast_to(y, (x.shape[0] % 3 + 1, 2)) * 2.0, [(("B", 3), F32), ((1, 2), F32)])
    fam["bcast_dim_two_syms"] = (lambda x, y: jnp.broadcast_to(y, (2 * x.shape[0] + x.shape[1], 2)) * 2.0, [(("B", "N"), F32), ((1, 2), F32)])
    fam["tile_dim_expr"] = (lambda x, y: jnp.tile(y, (x.shape[0] * 2 + 1, 1)), [(("B", 3), F32), ((1, 2), F32)])
    fam["dim_square"] = (lambda x: x.sum() + dimval(x.shape[0] * x.shape[0]).astype(jnp.float32), [(("B", 2), F32)])
    fam["dim_max"] = (lambda x: x.sum() + dimval(jax.export.symbolic_shape and max(x.shape[0], 3) if isinstance(x.shape[0], int) else jnp_max_dim(x.shape[0], 3)).astype(jnp.float32), [(("B", 2), F32)])
    fam["arange_dim"] = (lambda x: x[:, 0] + jnp.arange(x.shape[0], dtype=jnp.float32), [(("B", 2), F32)])
    fam["iota_mask"] = (lambda x: jnp.where(jnp.arange(x.shape[0])[:, None] < 2, x, 0.0), [(("B", 2), F32)])
    fam["zeros_like_dim"] = (lambda x: jnp.concatenate([x, jnp.zeros((x.shape[0], 1), x.dtype)], axis=1), [(("B", 2), F32)])
    fam["ones_dim_half"] = (lambda x: x.sum() + jnp.ones(((x.shape[0] + 1) // 2,), x.dtype).sum(), [(("B", 2), F32)])
    fam["slice_sym"] = (lambda x: x[1:], [(("B", 2), F32)])
    fam["slice_last"] = (lambda x: x[-1], [(("B", 2), F32)])
    fam["slice_half"] = (lambda x: x[: x.shape[0] // 2], [(("B", 2), F32)])
    fam["tile_dim"] = (lambda x, y: jnp.tile(y, (x.shape[0], 1)) + x, [(("B", 2), F32), ((1, 2), F32)])
    fam["broadcast_to_dim"] = (lambda x, y: jnp.broadcast_to(y, (x.shape[0], 2)) * x, [(("B", 2), F32), ((2,), F32)])
    fam["expand_squeeze"] = (lambda x: jnp.squeeze(jnp.expand_dims(x, 1), 1) + 1.0, [(("B", 2), F32)])
    fam["softmax_sym"] = (lambda x: jax.nn.softmax(x, axis=0), [(("B", 2), F32)])
    fam["cumsum_sym"] = (lambda x: jnp.cumsum(x, axis=0), [(("B", 2), F32)])
    fam["matmul_sym"] = (lambda x: x @ (np.arange(6, dtype=np.float32).reshape(2, 3) / 3.0), [(("B", 2), F32)])
    fam["int_input_sym"] = (lambda i: i * 2 + 1, [(("B",), I32)])
    fam["stack_sym"] = (lambda x: jnp.stack([x, -x], axis=1), [(("B", 2), F32)])
    fam["flip_sym"] = (lambda x: jnp.flip(x, axis=0), [(("B", 2), F32)])
    fam["pad_sym"] = (lambda x: jnp.pad(x, ((1, 1), (0, 0))), [(("B", 2), F32)])
    fam["outer_sym"] = (lambda x, y: x[:, None] * y[None, :], [(("B",), F32), (("N",), F32)])
    fam["reshape_B1"] = (lambda x: x.reshape(x.shape[0], 1, -1), [(("B", 2, 3), F32)])
    fam["mean_dim_explicit"] = (lambda x: x.sum(axis=0) / x.shape[0], [(("B", 2), F32)])
    fam["var_sym"] = (lambda x: jnp.var(x, axis=0), [(("B", 2), F32)])
    fam.pop("dim_max")
    for name, (fn, specs) in fam.items():
        reg("A4", name, functools.partial(P, fn, specs))
