"""Shape mode: the ONNX model interpreted over SYMBOLIC DIMENSIONS (z3 Ints).

Data tensors carry no elements; shape-carrying integer tensors (results of Shape, and of
Gather/Slice/Concat/arith/Cast/Squeeze/Unsqueeze/Reshape/Range on them, and small int64
initializers) carry their vectors of Int terms with exact ONNX integer semantics (Div truncates,
Mod follows the sign of the divisor unless fmod).  Every operator contributes its output shape and
OBLIGATIONS (broadcast compatibility, Reshape element counts, MatMul/Concat agreement, ...).
"""
from __future__ import annotations

import itertools
import math
import re

import numpy as np
import onnx
import z3
from onnx import helper, numpy_helper

from .sym import NotEncodable
from .onnx_sem import np_dtype_of, ModelInvalid, _attrs, _s

MAXVEC = 32


def is_sym(x):
    return isinstance(x, z3.ExprRef)


def simp(x):
    if is_sym(x):
        y = z3.simplify(x)
        if z3.is_int_value(y):
            return y.as_long()
        return y
    return int(x)


class SV:
    __slots__ = ("dtype", "shape", "vec")

    def __init__(self, dtype, shape, vec=None):
        self.dtype = np.dtype(dtype)
        self.shape = tuple(shape)
        self.vec = vec  # list (row-major) of ints / z3 Ints / bools, or None

    @property
    def rank(self):
        return len(self.shape)

    def concrete_shape(self):
        return all(not is_sym(d) for d in self.shape)

    def numel(self):
        n = 1
        for d in self.shape:
            n = n * d
        return simp(n)

    def __repr__(self):
        return f"SV({self.dtype},{self.shape},{'vec' if self.vec is not None else '-'})"


class SCtx:
    def __init__(self, opset, functions):
        self.opset = opset
        self.functions = functions
        self.obligations = []  # (z3 Bool, text)
        self.facts = []  # assumptions (dims >= 0 ...)
        self.fresh = itertools.count()
        self.values = {}  # name -> SV for declared-annotation checks (all scopes, prefixed)
        self.notes = []

    def fresh_dim(self, tag="d"):
        v = z3.Int(f"__{tag}{next(self.fresh)}")
        self.facts.append(v >= 0)
        return v

    def oblige(self, cond, text):
        if isinstance(cond, bool):
            if not cond:
                raise ModelInvalid(text)
            return
        c = z3.simplify(cond)
        if z3.is_true(c):
            return
        if z3.is_false(c):
            raise ModelInvalid(text)
        self.obligations.append((c, text))


def deq(a, b):
    if not is_sym(a) and not is_sym(b):
        return int(a) == int(b)
    if is_sym(a) and is_sym(b) and a.eq(b):
        return True
    r = z3.simplify(a == b) if True else None
    if z3.is_true(r):
        return True
    if z3.is_false(r):
        return False
    return r


def bcast_dim(ctx, a, b, what):
    if not is_sym(a) and not is_sym(b):
        if a == b or b == 1:
            return a
        if a == 1:
            return b
        raise ModelInvalid(f"{what}: cannot broadcast {a} and {b}")
    if not is_sym(a) and a == 1:
        return b
    if not is_sym(b) and b == 1:
        return a
    e = deq(a, b)
    if e is True:
        return a
    ctx.oblige(z3.Or(a == b, a == 1, b == 1), f"{what}: dims {a} and {b} must broadcast")
    if not is_sym(b):
        return b  # b is concrete != 1: result must be b
    if not is_sym(a):
        return a
    return simp(z3.If(a == 1, b, a))


def bcast_shapes(ctx, shapes, what):
    r = max(len(s) for s in shapes)
    out = []
    for i in range(r):
        cur = 1
        for s in shapes:
            j = i - (r - len(s))
            if j >= 0:
                cur = bcast_dim(ctx, cur, s[j], what)
        out.append(cur)
    return tuple(out)


# ---- integer vector arithmetic (exact ONNX semantics on int64, overflow excluded by the dim bound)

def tdiv(a, b):
    if not is_sym(a) and not is_sym(b):
        if b == 0:
            raise ModelInvalid("shape arithmetic: division by zero")
        q = abs(a) // abs(b)
        return q if (a >= 0) == (b >= 0) else -q
    A, B = (a if is_sym(a) else z3.IntVal(a)), (b if is_sym(b) else z3.IntVal(b))
    absq = z3.If(A >= 0, A, -A) / z3.If(B >= 0, B, -B)
    return simp(z3.If((A >= 0) == (B >= 0), absq, -absq))


def fmod_floor(a, b):
    if not is_sym(a) and not is_sym(b):
        return a % b
    A, B = (a if is_sym(a) else z3.IntVal(a)), (b if is_sym(b) else z3.IntVal(b))
    return simp(z3.If(B > 0, A % B, -((-A) % (-B))))


def frem_trunc(a, b):
    if not is_sym(a) and not is_sym(b):
        return int(math.fmod(a, b))
    A, B = (a if is_sym(a) else z3.IntVal(a)), (b if is_sym(b) else z3.IntVal(b))
    r = z3.If(A >= 0, A, -A) % z3.If(B >= 0, B, -B)
    return simp(z3.If(A >= 0, r, -r))


def vmax(a, b):
    if not is_sym(a) and not is_sym(b):
        return max(a, b)
    return simp(z3.If(a >= b, a, b))


def vmin(a, b):
    if not is_sym(a) and not is_sym(b):
        return min(a, b)
    return simp(z3.If(a <= b, a, b))


def _vec_of(sv: SV, what):
    if sv.vec is None:
        raise NotEncodable(f"{what}: data-dependent shape operand")
    return sv.vec


def _ints_concrete(sv: SV, what):
    v = _vec_of(sv, what)
    if any(is_sym(x) for x in v):
        raise NotEncodable(f"{what}: symbolic value where a constant is required")
    return [int(x) for x in v]


def const_SV(arr, dtype=None):
    arr = np.asarray(arr)
    dt = np.dtype(dtype) if dtype is not None else arr.dtype
    vec = None
    if arr.size <= MAXVEC and arr.dtype.kind in "iub":
        vec = [bool(x) if arr.dtype.kind == "b" else int(x) for x in arr.reshape(-1).tolist()]
    elif arr.size <= MAXVEC and arr.dtype.kind == "f" and arr.ndim <= 1:
        vec = [float(x) for x in arr.reshape(-1).tolist()]
    return SV(dt, arr.shape, vec)


# --------------------------------------------------------------------------- operators

OPS = {}


def op(*names):
    def deco(fn):
        for n in names:
            OPS[n] = fn
        return fn

    return deco


UNARY_SAME = """Abs Neg Sqrt Exp Log Tanh Sin Cos Tan Asin Acos Atan Sinh Cosh Asinh Acosh Atanh Erf Floor Ceil Round
Reciprocal Sigmoid Softplus Softsign Mish Relu LeakyRelu Elu Selu Celu HardSigmoid HardSwish Swish Gelu Sign Not Identity
ThresholdedRelu Softmax LogSoftmax Hardmax IsNaN IsInf BitwiseNot LpNormalization MeanVarianceNormalization Dropout_ CumSum_""".split()


def _unary(ctx, node, ins, at):
    x = ins[0]
    dt = x.dtype
    if node.op_type in ("IsNaN", "IsInf"):
        dt = np.dtype(bool)
    vec = None
    if x.vec is not None and node.op_type in ("Identity", "Neg", "Abs"):
        f = {"Identity": lambda v: v, "Neg": lambda v: simp(-v), "Abs": lambda v: simp(z3.If(v >= 0, v, -v)) if is_sym(v) else abs(v)}[node.op_type]
        vec = [f(v) for v in x.vec]
    return [SV(dt, x.shape, vec)]


for _n in UNARY_SAME:
    OPS[_n] = _unary


def _binary_arith(fn_name):
    def impl(ctx, node, ins, at):
        a, b = ins[0], ins[1]
        if a.dtype != b.dtype:
            raise ModelInvalid(f"{node.op_type}: operand element types differ ({a.dtype} vs {b.dtype})")
        shp = bcast_shapes(ctx, [a.shape, b.shape], node.op_type)
        vec = None
        if a.vec is not None and b.vec is not None and a.dtype.kind in "iu" and all(not is_sym(d) for d in shp):
            n = int(np.prod(shp)) if shp else 1
            if n <= MAXVEC:
                A = np.broadcast_to(np.array(a.vec, dtype=object).reshape([int(d) for d in a.shape]), [int(d) for d in shp]).reshape(-1)
                B = np.broadcast_to(np.array(b.vec, dtype=object).reshape([int(d) for d in b.shape]), [int(d) for d in shp]).reshape(-1)
                f = {
                    "Add": lambda x, y: simp(x + y), "Sub": lambda x, y: simp(x - y), "Mul": lambda x, y: simp(x * y),
                    "Div": tdiv, "Max": vmax, "Min": vmin,
                    "Mod": (frem_trunc if int(at.get("fmod", 0)) else fmod_floor),
                }[fn_name]
                if fn_name in ("Div", "Mod"):
                    for y in B:
                        if is_sym(y):
                            ctx.oblige(y != 0, f"{node.op_type}: divisor must be nonzero")
                        elif y == 0:
                            raise ModelInvalid(f"{node.op_type}: constant zero divisor")
                vec = [f(x, y) for x, y in zip(A, B)]
        return [SV(a.dtype, shp, vec)]

    return impl


for _n in ("Add", "Sub", "Mul", "Div", "Mod"):
    OPS[_n] = _binary_arith(_n)


def _variadic(ctx, node, ins, at):
    shp = bcast_shapes(ctx, [i.shape for i in ins], node.op_type)
    dts = {i.dtype for i in ins}
    if len(dts) != 1:
        raise ModelInvalid(f"{node.op_type}: operand element types differ")
    vec = None
    if len(ins) == 2 and node.op_type in ("Max", "Min"):
        return _binary_arith(node.op_type)(ctx, node, ins, at)
    return [SV(ins[0].dtype, shp, vec)]


for _n in ("Max", "Min", "Sum", "Mean", "BitwiseAnd", "BitwiseOr", "BitwiseXor", "PRelu", "BitShift"):
    OPS[_n] = _variadic


@op("Pow")
def _pow(ctx, node, ins, at):
    a, b = ins
    shp = bcast_shapes(ctx, [a.shape, b.shape], "Pow")
    vec = None
    if a.vec is not None and b.vec is not None and a.dtype.kind in "iu" and len(b.vec) == 1 and not is_sym(b.vec[0]) and float(b.vec[0]) == int(b.vec[0]) and 0 <= int(b.vec[0]) <= 4:
        k = int(b.vec[0])

        def p(v):
            r = 1
            for _ in range(k):
                r = r * v
            return simp(r)

        if all(not is_sym(d) for d in shp) and len(a.vec) == (int(np.prod(shp)) if shp else 1):
            vec = [p(v) for v in a.vec]
    return [SV(a.dtype, shp, vec)]


def _compare(ctx, node, ins, at):
    a, b = ins
    if a.dtype != b.dtype:
        raise ModelInvalid(f"{node.op_type}: operand element types differ")
    return [SV(bool, bcast_shapes(ctx, [a.shape, b.shape], node.op_type))]


for _n in ("Equal", "Less", "Greater", "LessOrEqual", "GreaterOrEqual"):
    OPS[_n] = _compare
for _n in ("And", "Or", "Xor"):
    OPS[_n] = lambda ctx, node, ins, at: [SV(bool, bcast_shapes(ctx, [ins[0].shape, ins[1].shape], node.op_type))]


@op("Where")
def _where(ctx, node, ins, at):
    c, x, y = ins
    if x.dtype != y.dtype:
        raise ModelInvalid("Where: branch element types differ")
    if c.dtype != np.dtype(bool):
        raise ModelInvalid("Where: condition is not bool")
    return [SV(x.dtype, bcast_shapes(ctx, [c.shape, x.shape, y.shape], "Where"))]


@op("Clip")
def _clip(ctx, node, ins, at):
    return [SV(ins[0].dtype, ins[0].shape)]


@op("Cast")
def _cast(ctx, node, ins, at):
    dst = np_dtype_of(int(at["to"]))
    x = ins[0]
    vec = None
    if x.vec is not None:
        if dst.kind in "iu" and x.dtype.kind in "iu":
            vec = list(x.vec)
        elif dst.kind in "iu" and x.dtype.kind == "b":
            vec = [int(v) if not is_sym(v) else v for v in x.vec]
        elif dst.kind == "f" and x.dtype.kind in "iu":
            vec = list(x.vec)  # integral values kept as ints (exact below 2^24/2^53)
        elif dst.kind in "iu" and x.dtype.kind == "f" and all(not is_sym(v) and float(v) == int(v) for v in x.vec):
            vec = [int(v) for v in x.vec]
    return [SV(dst, x.shape, vec)]


@op("CastLike")
def _castlike(ctx, node, ins, at):
    return [SV(ins[1].dtype, ins[0].shape, ins[0].vec if ins[0].dtype.kind == ins[1].dtype.kind else None)]


@op("Dropout")
def _dropout(ctx, node, ins, at):
    return [SV(ins[0].dtype, ins[0].shape), SV(bool, ins[0].shape)]


@op("Shape")
def _shape(ctx, node, ins, at):
    x = ins[0]
    n = x.rank
    start = int(at.get("start", 0))
    end = at.get("end")
    if start < 0:
        start += n
    start = min(max(start, 0), n)
    end = n if end is None else int(end)
    if end < 0:
        end += n
    end = min(max(end, 0), n)
    dims = list(x.shape[start:end])
    return [SV(np.int64, (len(dims),), dims)]


@op("Size")
def _size(ctx, node, ins, at):
    return [SV(np.int64, (), [ins[0].numel()])]


@op("Constant")
def _constant(ctx, node, ins, at):
    if "value" in at:
        t = at["value"]
        return [const_SV(numpy_helper.to_array(t), np_dtype_of(t.data_type))]
    if "value_int" in at:
        return [const_SV(np.array(at["value_int"], dtype=np.int64))]
    if "value_ints" in at:
        return [const_SV(np.array(at["value_ints"], dtype=np.int64))]
    if "value_float" in at:
        return [const_SV(np.array(at["value_float"], dtype=np.float32))]
    if "value_floats" in at:
        return [const_SV(np.array(at["value_floats"], dtype=np.float32))]
    raise NotEncodable("Constant form")


@op("ConstantOfShape")
def _cos(ctx, node, ins, at):
    shp = _vec_of(ins[0], "ConstantOfShape")
    for d in shp:
        if is_sym(d):
            ctx.oblige(d >= 0, "ConstantOfShape: negative dimension")
    dt = np.float32
    val = 0.0
    if "value" in at:
        arr = numpy_helper.to_array(at["value"])
        dt = np_dtype_of(at["value"].data_type)
        val = arr.reshape(-1)[0]
    vec = None
    if all(not is_sym(d) for d in shp) and np.dtype(dt).kind in "iub":
        n = int(np.prod(shp)) if shp else 1
        if n <= MAXVEC:
            vec = [int(val)] * n
    return [SV(dt, tuple(shp), vec)]


@op("Range")
def _range(ctx, node, ins, at):
    s, l, d = (_vec_of(x, "Range")[0] for x in ins)
    dt = ins[0].dtype
    if dt.kind == "f":
        if any(is_sym(v) for v in (s, l, d)):
            raise NotEncodable("Range: symbolic float bounds")
        n = max(int(math.ceil((l - s) / d)), 0)
        return [SV(dt, (n,), None)]
    if not is_sym(d):
        if d == 0:
            raise ModelInvalid("Range: delta 0")
        if not is_sym(s) and not is_sym(l):
            n = max(-((s - l) // d), 0) if d > 0 else max(-((l - s) // (-d)), 0)
            vals = [s + i * d for i in range(n)] if n <= MAXVEC else None
            return [SV(dt, (n,), vals)]
        S_, L_ = (s if is_sym(s) else z3.IntVal(s)), (l if is_sym(l) else z3.IntVal(l))
        if d > 0:
            cnt = z3.If(L_ > S_, (L_ - S_ + (d - 1)) / d, 0)
        else:
            cnt = z3.If(S_ > L_, (S_ - L_ + (-d - 1)) / (-d), 0)
        return [SV(dt, (simp(cnt),), None)]
    raise NotEncodable("Range: symbolic delta")


@op("Reshape")
def _reshape(ctx, node, ins, at):
    x, shp = ins
    if shp.dtype != np.dtype(np.int64):
        raise ModelInvalid("Reshape: shape tensor must be int64")
    tgt = list(_vec_of(shp, "Reshape"))
    allowzero = int(at.get("allowzero", 0))
    out = []
    neg = None
    for i, d in enumerate(tgt):
        if not is_sym(d) and d == -1:
            if neg is not None:
                raise ModelInvalid("Reshape: more than one -1")
            neg = i
            out.append(None)
        elif not is_sym(d) and d == 0 and not allowzero:
            if i >= x.rank:
                raise ModelInvalid("Reshape: 0 beyond input rank")
            out.append(x.shape[i])
        else:
            if is_sym(d):
                ctx.oblige(d >= 0, f"Reshape: target dim {d} must be non-negative")
            elif d < -1:
                raise ModelInvalid("Reshape: negative dim")
            out.append(d)
    total = x.numel()
    if neg is None:
        prod = 1
        for d in out:
            prod = prod * d
        ctx.oblige(deq(simp(prod), total) if not isinstance(deq(simp(prod), total), bool) else deq(simp(prod), total), f"Reshape: element count {total} -> {simp(prod)}")
    else:
        known = 1
        for d in out:
            if d is not None:
                known = known * d
        known = simp(known)
        if not is_sym(known) and not is_sym(total):
            if known == 0 or total % known:
                raise ModelInvalid(f"Reshape: cannot infer -1 ({total} / {known})")
            out[neg] = total // known
        else:
            K = known if is_sym(known) else z3.IntVal(known)
            Tt = total if is_sym(total) else z3.IntVal(total)
            ctx.oblige(z3.And(K != 0, Tt % K == 0), f"Reshape: -1 cannot be inferred ({total} / {known})")
            out[neg] = simp(Tt / K)
    vec = x.vec if (x.vec is not None) else None
    return [SV(x.dtype, tuple(simp(d) for d in out), vec)]


@op("Flatten")
def _flatten(ctx, node, ins, at):
    x = ins[0]
    axis = int(at.get("axis", 1))
    if axis < 0:
        axis += x.rank
    a = 1
    for d in x.shape[:axis]:
        a = a * d
    b = 1
    for d in x.shape[axis:]:
        b = b * d
    return [SV(x.dtype, (simp(a), simp(b)))]


@op("Transpose")
def _transpose(ctx, node, ins, at):
    x = ins[0]
    perm = at.get("perm") or list(range(x.rank))[::-1]
    perm = [int(p) for p in perm]
    if sorted(perm) != list(range(x.rank)):
        raise ModelInvalid(f"Transpose: perm {perm} for rank {x.rank}")
    return [SV(x.dtype, tuple(x.shape[p] for p in perm))]


def _axes(ins, at, idx, rank_out, what):
    axes = at.get("axes")
    if len(ins) > idx and ins[idx] is not None:
        axes = _ints_concrete(ins[idx], what)
    return axes


@op("Squeeze")
def _squeeze(ctx, node, ins, at):
    x = ins[0]
    axes = _axes(ins, at, 1, x.rank, "Squeeze")
    if axes is None:
        if not x.concrete_shape():
            raise NotEncodable("Squeeze without axes on symbolic shape")
        axes = [i for i, d in enumerate(x.shape) if d == 1]
    axes = [a % x.rank for a in axes] if x.rank else []
    for a in axes:
        ctx.oblige(deq(x.shape[a], 1), f"Squeeze: axis {a} has size {x.shape[a]}")
    return [SV(x.dtype, tuple(d for i, d in enumerate(x.shape) if i not in axes), x.vec)]


@op("Unsqueeze")
def _unsqueeze(ctx, node, ins, at):
    x = ins[0]
    axes = _axes(ins, at, 1, x.rank, "Unsqueeze")
    if axes is None:
        raise ModelInvalid("Unsqueeze: no axes")
    nr = x.rank + len(axes)
    axes = sorted(a % nr for a in axes)
    shp = list(x.shape)
    for a in axes:
        shp.insert(a, 1)
    return [SV(x.dtype, tuple(shp), x.vec)]


@op("Concat")
def _concat(ctx, node, ins, at):
    axis = int(at["axis"])
    r = ins[0].rank
    if not (-r <= axis < r):
        raise ModelInvalid("Concat: axis out of range")
    axis %= r
    dts = {i.dtype for i in ins}
    if len(dts) != 1:
        raise ModelInvalid(f"Concat: element types differ {sorted(map(str, dts))}")
    shp = list(ins[0].shape)
    tot = 0
    for t in ins:
        if t.rank != r:
            raise ModelInvalid("Concat: ranks differ")
        for i in range(r):
            if i != axis:
                e = deq(t.shape[i], shp[i])
                if e is not True:
                    ctx.oblige(e, f"Concat: dim {i} differs ({t.shape[i]} vs {shp[i]})")
        tot = tot + t.shape[axis]
    shp[axis] = simp(tot)
    vec = None
    if r == 1 and all(t.vec is not None for t in ins):
        vec = [v for t in ins for v in t.vec]
        if len(vec) > MAXVEC:
            vec = None
    return [SV(ins[0].dtype, tuple(shp), vec)]


@op("Gather")
def _gather(ctx, node, ins, at):
    x, idx = ins
    axis = int(at.get("axis", 0))
    if not (-x.rank <= axis < x.rank):
        raise ModelInvalid("Gather: axis out of range")
    axis %= x.rank
    shp = tuple(x.shape[:axis]) + tuple(idx.shape) + tuple(x.shape[axis + 1:])
    vec = None
    if x.vec is not None and idx.vec is not None and x.rank == 1 and not is_sym(x.shape[0]):
        n = int(x.shape[0])
        out = []
        for i in idx.vec:
            if is_sym(i):
                ctx.oblige(z3.And(i >= -n, i < n), "Gather: index out of range")
                out = None
                break
            if not (-n <= i < n):
                raise ModelInvalid(f"Gather: constant index {i} out of range for size {n}")
            out.append(x.vec[i])
        vec = out
    elif idx.vec is not None and not is_sym(x.shape[axis]):
        n = int(x.shape[axis])
        for i in idx.vec:
            if not is_sym(i) and not (-n <= i < n):
                raise ModelInvalid(f"Gather: constant index {i} out of range for size {n}")
    elif idx.vec is not None and is_sym(x.shape[axis]):
        for i in idx.vec:
            if not is_sym(i):
                ctx.oblige(z3.And(i >= -x.shape[axis], i < x.shape[axis]), f"Gather: constant index {i} must be inside symbolic extent {x.shape[axis]}")
    return [SV(x.dtype, shp, vec)]


@op("GatherElements")
def _gather_elements(ctx, node, ins, at):
    return [SV(ins[0].dtype, ins[1].shape)]


@op("GatherND")
def _gathernd(ctx, node, ins, at):
    x, idx = ins
    last = idx.shape[-1]
    if is_sym(last):
        raise NotEncodable("GatherND symbolic index depth")
    b = int(at.get("batch_dims", 0))
    return [SV(x.dtype, tuple(idx.shape[:-1]) + tuple(x.shape[b + int(last):]))]


@op("ScatterND", "ScatterElements")
def _scatter(ctx, node, ins, at):
    return [SV(ins[0].dtype, ins[0].shape)]


@op("Slice")
def _slice(ctx, node, ins, at):
    x = ins[0]
    if len(ins) > 1:
        starts = _vec_of(ins[1], "Slice starts")
        ends = _vec_of(ins[2], "Slice ends")
        axes = _ints_concrete(ins[3], "Slice axes") if len(ins) > 3 and ins[3] is not None else list(range(len(starts)))
        steps = _ints_concrete(ins[4], "Slice steps") if len(ins) > 4 and ins[4] is not None else [1] * len(starts)
    else:
        starts, ends = list(at["starts"]), list(at["ends"])
        axes = list(at.get("axes", range(len(starts))))
        steps = [1] * len(starts)
    shp = list(x.shape)
    vec = x.vec
    for s, e, ax, st in zip(starts, ends, axes, steps):
        if not (-x.rank <= ax < x.rank):
            raise ModelInvalid("Slice: axis out of range")
        ax %= x.rank
        if st == 0:
            raise ModelInvalid("Slice: step 0")
        d = shp[ax]
        if not is_sym(d) and not is_sym(s) and not is_sym(e):
            s2 = s + d if s < 0 else s
            e2 = e + d if e < 0 else e
            if st > 0:
                s2, e2 = min(max(s2, 0), d), min(max(e2, 0), d)
                n = max(-(-(e2 - s2) // st), 0)
            else:
                s2, e2 = min(max(s2, 0), d - 1), min(max(e2, -1), d - 1)
                n = max(-(-(s2 - e2) // (-st)), 0)
            if vec is not None and x.rank == 1:
                vec = vec[slice(s2, e2 if (st > 0 or e2 >= 0) else None, st)]
            shp[ax] = n
        else:
            vec = None
            D = d if is_sym(d) else z3.IntVal(d)
            S_ = s if is_sym(s) else z3.IntVal(s)
            E_ = e if is_sym(e) else z3.IntVal(e)
            S2 = z3.If(S_ < 0, S_ + D, S_)
            E2 = z3.If(E_ < 0, E_ + D, E_)
            if st > 0:
                cl = lambda v: z3.If(v < 0, 0, z3.If(v > D, D, v))
                S3, E3 = cl(S2), cl(E2)
                n = z3.If(E3 > S3, (E3 - S3 + (st - 1)) / st, 0)
            else:
                cs = lambda v: z3.If(v < 0, 0, z3.If(v > D - 1, D - 1, v))
                ce = lambda v: z3.If(v < -1, -1, z3.If(v > D - 1, D - 1, v))
                S3, E3 = cs(S2), ce(E2)
                n = z3.If(S3 > E3, (S3 - E3 + (-st - 1)) / (-st), 0)
            shp[ax] = simp(n)
    return [SV(x.dtype, tuple(shp), vec if x.rank == 1 else None)]


@op("Expand")
def _expand(ctx, node, ins, at):
    x, shp = ins
    tgt = tuple(_vec_of(shp, "Expand"))
    return [SV(x.dtype, bcast_shapes(ctx, [x.shape, tgt], "Expand"))]


@op("Tile")
def _tile(ctx, node, ins, at):
    x, reps = ins
    r = _vec_of(reps, "Tile")
    if len(r) != x.rank:
        raise ModelInvalid("Tile: repeats length != rank")
    return [SV(x.dtype, tuple(simp(d * k) for d, k in zip(x.shape, r)))]


@op("Pad")
def _pad(ctx, node, ins, at):
    x = ins[0]
    if len(ins) > 1:
        pads = _vec_of(ins[1], "Pad")
        axes = _ints_concrete(ins[3], "Pad axes") if len(ins) > 3 and ins[3] is not None else list(range(x.rank))
    else:
        pads = list(at["pads"])
        axes = list(range(x.rank))
    n = len(axes)
    if len(pads) != 2 * n:
        raise ModelInvalid("Pad: pads length")
    shp = list(x.shape)
    for i, ax in enumerate(axes):
        shp[ax % x.rank] = simp(shp[ax % x.rank] + pads[i] + pads[i + n])
    return [SV(x.dtype, tuple(shp))]


@op("Split")
def _split(ctx, node, ins, at):
    x = ins[0]
    axis = int(at.get("axis", 0)) % x.rank
    split = at.get("split")
    if len(ins) > 1 and ins[1] is not None:
        split = _vec_of(ins[1], "Split")
    nout = len([o for o in node.output])
    d = x.shape[axis]
    if split is None:
        n = int(at.get("num_outputs", nout))
        if is_sym(d):
            raise NotEncodable("Split: equal split of a symbolic dim")
        sz = -(-d // n)
        split = [sz] * (n - 1) + [d - sz * (n - 1)]
    tot = 0
    for s in split:
        tot = tot + s
    ctx.oblige(deq(simp(tot), d), f"Split: sizes {split} do not sum to {d}")
    outs = []
    for s in split:
        shp = list(x.shape)
        shp[axis] = s
        outs.append(SV(x.dtype, tuple(shp)))
    return outs


def _reduce(ctx, node, ins, at):
    x = ins[0]
    axes = at.get("axes")
    if len(ins) > 1 and ins[1] is not None:
        axes = _ints_concrete(ins[1], node.op_type + " axes")
    keep = int(at.get("keepdims", 1))
    noop = int(at.get("noop_with_empty_axes", 0))
    if axes is None or len(axes) == 0:
        if noop:
            return [SV(x.dtype, x.shape)]
        axes = list(range(x.rank))
    for a in axes:
        if x.rank and not (-x.rank <= a < x.rank):
            raise ModelInvalid(f"{node.op_type}: axis {a} out of range for rank {x.rank}")
    axes = {a % x.rank for a in axes} if x.rank else set()
    shp = [(1 if i in axes else d) for i, d in enumerate(x.shape)] if keep else [d for i, d in enumerate(x.shape) if i not in axes]
    vec = None
    if x.vec is not None and x.rank == 1 and node.op_type in ("ReduceProd", "ReduceSum", "ReduceMax", "ReduceMin") and x.dtype.kind in "iu":
        acc = None
        for v in x.vec:
            if acc is None:
                acc = v
            else:
                acc = {"ReduceProd": lambda a, b: simp(a * b), "ReduceSum": lambda a, b: simp(a + b), "ReduceMax": vmax, "ReduceMin": vmin}[node.op_type](acc, v)
        if acc is not None:
            vec = [acc]
    return [SV(x.dtype, tuple(shp), vec)]


for _n in ("ReduceSum", "ReduceMean", "ReduceMax", "ReduceMin", "ReduceProd", "ReduceSumSquare", "ReduceL1", "ReduceL2", "ReduceLogSum", "ReduceLogSumExp"):
    OPS[_n] = _reduce


def _argred(ctx, node, ins, at):
    x = ins[0]
    axis = int(at.get("axis", 0)) % x.rank
    keep = int(at.get("keepdims", 1))
    shp = [(1 if i == axis else d) for i, d in enumerate(x.shape)] if keep else [d for i, d in enumerate(x.shape) if i != axis]
    if is_sym(x.shape[axis]):
        ctx.oblige(x.shape[axis] >= 1, f"{node.op_type}: reduced axis may be empty")
    return [SV(np.int64, tuple(shp))]


OPS["ArgMax"] = OPS["ArgMin"] = _argred


@op("CumSum", "CumProd")
def _cum(ctx, node, ins, at):
    return [SV(ins[0].dtype, ins[0].shape)]


@op("MatMul")
def _matmul(ctx, node, ins, at):
    a, b = ins
    if a.dtype != b.dtype:
        raise ModelInvalid("MatMul: element types differ")
    if a.rank == 0 or b.rank == 0:
        raise ModelInvalid("MatMul: scalar operand")
    ash, bsh = list(a.shape), list(b.shape)
    a1 = b1 = False
    if len(ash) == 1:
        ash = [1] + ash
        a1 = True
    if len(bsh) == 1:
        bsh = bsh + [1]
        b1 = True
    e = deq(ash[-1], bsh[-2])
    if e is not True:
        ctx.oblige(e, f"MatMul: inner dims {ash[-1]} vs {bsh[-2]}")
    batch = bcast_shapes(ctx, [tuple(ash[:-2]), tuple(bsh[:-2])], "MatMul batch")
    out = list(batch) + ([] if a1 else [ash[-2]]) + ([] if b1 else [bsh[-1]])
    return [SV(a.dtype, tuple(out))]


@op("Gemm")
def _gemm(ctx, node, ins, at):
    a, b = ins[0], ins[1]
    if a.rank != 2 or b.rank != 2:
        raise ModelInvalid("Gemm: operands must be 2-D")
    ash = a.shape[::-1] if int(at.get("transA", 0)) else a.shape
    bsh = b.shape[::-1] if int(at.get("transB", 0)) else b.shape
    e = deq(ash[1], bsh[0])
    if e is not True:
        ctx.oblige(e, f"Gemm: inner dims {ash[1]} vs {bsh[0]}")
    out = (ash[0], bsh[1])
    if len(ins) > 2 and ins[2] is not None:
        # C must be unidirectionally broadcastable to (M, N)
        res = bcast_shapes(ctx, [out, ins[2].shape], "Gemm bias")
        for r_, o_ in zip(res, out):
            e2 = deq(r_, o_)
            if e2 is not True:
                ctx.oblige(e2, "Gemm: bias enlarges the result")
    return [SV(a.dtype, out)]


@op("Einsum")
def _einsum(ctx, node, ins, at):
    eq = _s(at["equation"]).replace(" ", "")
    if "..." in eq:
        raise NotEncodable("einsum ellipsis")
    lhs, rhs = eq.split("->") if "->" in eq else (eq, None)
    terms = lhs.split(",")
    dims = {}
    for t, o in zip(terms, ins):
        if len(t) != o.rank:
            raise ModelInvalid("Einsum: rank mismatch")
        for ch, d in zip(t, o.shape):
            if ch in dims:
                dims[ch] = bcast_dim(ctx, dims[ch], d, f"Einsum index {ch}")
            else:
                dims[ch] = d
    if rhs is None:
        allc = lhs.replace(",", "")
        rhs = "".join(sorted(c for c in set(allc) if allc.count(c) == 1))
    return [SV(ins[0].dtype, tuple(dims[c] for c in rhs))]


@op("LayerNormalization")
def _layernorm(ctx, node, ins, at):
    x = ins[0]
    axis = int(at.get("axis", -1)) % x.rank
    red = tuple(x.shape[:axis]) + (1,) * (x.rank - axis)
    for k in (1, 2):
        if len(ins) > k and ins[k] is not None:
            bcast_shapes(ctx, [x.shape, ins[k].shape], "LayerNormalization scale/bias")
    return [SV(x.dtype, x.shape), SV(x.dtype, red), SV(x.dtype, red)]


@op("RMSNormalization", "BatchNormalization", "InstanceNormalization", "GroupNormalization")
def _norm(ctx, node, ins, at):
    return [SV(ins[0].dtype, ins[0].shape)]


def _pool_out(ctx, x, ks, at, what):
    nsp = len(ks)
    strides = [int(s) for s in at.get("strides", [1] * nsp)]
    dil = [int(s) for s in at.get("dilations", [1] * nsp)]
    pads = [int(p) for p in at.get("pads", [0] * (2 * nsp))]
    auto = _s(at.get("auto_pad", "NOTSET"))
    ceil_mode = int(at.get("ceil_mode", 0))
    out = []
    for i in range(nsp):
        d = x.shape[2 + i]
        eff = (ks[i] - 1) * dil[i] + 1
        if auto in ("SAME_UPPER", "SAME_LOWER"):
            o = simp((d + strides[i] - 1) / strides[i]) if is_sym(d) else -(-d // strides[i])
        else:
            tot = d + pads[i] + pads[i + nsp] - eff
            if is_sym(tot):
                ctx.oblige(tot >= 0, f"{what}: window larger than padded input")
                o = simp((tot + (strides[i] - 1 if ceil_mode else 0)) / strides[i] + 1)
            else:
                if tot < 0:
                    raise ModelInvalid(f"{what}: window larger than input")
                o = (-(-tot // strides[i]) if ceil_mode else tot // strides[i]) + 1
        out.append(o)
    return out


@op("MaxPool", "AveragePool", "LpPool")
def _pool(ctx, node, ins, at):
    x = ins[0]
    ks = [int(k) for k in at["kernel_shape"]]
    sp = _pool_out(ctx, x, ks, at, node.op_type)
    outs = [SV(x.dtype, tuple(x.shape[:2]) + tuple(sp))]
    if len(node.output) > 1:
        outs.append(SV(np.int64, outs[0].shape))
    return outs


@op("GlobalAveragePool", "GlobalMaxPool", "GlobalLpPool")
def _gpool(ctx, node, ins, at):
    x = ins[0]
    return [SV(x.dtype, tuple(x.shape[:2]) + (1,) * (x.rank - 2))]


@op("Conv")
def _conv(ctx, node, ins, at):
    x, w = ins[0], ins[1]
    group = int(at.get("group", 1))
    e = deq(simp(w.shape[1] * group), x.shape[1])
    if e is not True:
        ctx.oblige(e, f"Conv: channels {x.shape[1]} vs weight {w.shape[1]}*{group}")
    ks = [int(k) for k in at.get("kernel_shape", [])] or [int(k) for k in w.shape[2:]]
    sp = _pool_out(ctx, x, ks, at, "Conv")
    return [SV(x.dtype, (x.shape[0], w.shape[0]) + tuple(sp))]


@op("TopK")
def _topk(ctx, node, ins, at):
    x, k = ins
    kv = _vec_of(k, "TopK")[0]
    axis = int(at.get("axis", -1)) % x.rank
    shp = list(x.shape)
    ctx.oblige((kv <= shp[axis]) if (is_sym(kv) or is_sym(shp[axis])) else bool(kv <= shp[axis]), f"TopK: k={kv} exceeds axis size {shp[axis]}")
    shp[axis] = kv
    return [SV(x.dtype, tuple(shp)), SV(np.int64, tuple(shp))]


@op("OneHot")
def _onehot(ctx, node, ins, at):
    idx, depth, vals = ins
    d = _vec_of(depth, "OneHot")[0]
    axis = int(at.get("axis", -1))
    shp = list(idx.shape)
    ax = axis % (len(shp) + 1)
    shp.insert(ax, d)
    return [SV(vals.dtype, tuple(shp))]


@op("Trilu", "EyeLike", "DepthToSpace_", "RandomUniformLike", "RandomNormalLike", "Bernoulli")
def _same(ctx, node, ins, at):
    dt = np_dtype_of(int(at["dtype"])) if "dtype" in at else ins[0].dtype
    return [SV(dt, ins[0].shape)]


@op("DepthToSpace")
def _d2s(ctx, node, ins, at):
    x = ins[0]
    b = int(at["blocksize"])
    n, c, h, w = x.shape
    if not is_sym(c) and c % (b * b):
        raise ModelInvalid("DepthToSpace: channels not divisible")
    return [SV(x.dtype, (n, simp(c / (b * b)) if is_sym(c) else c // (b * b), simp(h * b), simp(w * b)))]


@op("SpaceToDepth")
def _s2d(ctx, node, ins, at):
    x = ins[0]
    b = int(at["blocksize"])
    n, c, h, w = x.shape
    for d in (h, w):
        if is_sym(d):
            ctx.oblige(d % b == 0, "SpaceToDepth: spatial dim not divisible by blocksize")
        elif d % b:
            raise ModelInvalid("SpaceToDepth: spatial dim not divisible")
    return [SV(x.dtype, (n, simp(c * b * b), simp(h / b) if is_sym(h) else h // b, simp(w / b) if is_sym(w) else w // b))]


@op("NonZero")
def _nonzero(ctx, node, ins, at):
    return [SV(np.int64, (ins[0].rank, ctx.fresh_dim("nz")))]


# --------------------------------------------------------------------------- evaluation

class Scope:
    def __init__(self, parent=None, prefix=""):
        self.vals = {}
        self.parent = parent
        self.prefix = prefix

    def get(self, name):
        s = self
        while s is not None:
            if name in s.vals:
                return s.vals[name]
            s = s.parent
        raise ModelInvalid(f"value '{name}' used before definition / not in scope")


def sv_from_value_info(ctx, vi, symbols):
    tt = vi.type.tensor_type
    dt = np_dtype_of(tt.elem_type)
    shp = []
    if not tt.HasField("shape"):
        raise NotEncodable(f"value {vi.name} without rank")
    for d in tt.shape.dim:
        if d.HasField("dim_value"):
            shp.append(int(d.dim_value))
        elif d.dim_param:
            if d.dim_param not in symbols:
                v = z3.Int(d.dim_param)
                symbols[d.dim_param] = v
            shp.append(symbols[d.dim_param])
        else:
            shp.append(ctx.fresh_dim("u"))
    return SV(dt, tuple(shp))


def eval_graph(ctx, g, scope, symbols):
    for init in g.initializer:
        if init.name in scope.vals:
            raise ModelInvalid(f"initializer '{init.name}' redefines a value")
        arr = numpy_helper.to_array(init) if (np.prod(init.dims) if len(init.dims) else 1) <= 4096 else None
        if arr is None:
            scope.vals[init.name] = SV(np_dtype_of(init.data_type), tuple(int(d) for d in init.dims))
        else:
            scope.vals[init.name] = const_SV(arr, np_dtype_of(init.data_type))
    for node in g.node:
        eval_node(ctx, node, scope, symbols)
    return [scope.get(o.name) for o in g.output]


def eval_node(ctx, node, scope, symbols):
    ins = [scope.get(n) if n != "" else None for n in node.input]
    at = _attrs(node)
    if node.domain not in ("", "ai.onnx"):
        fn = ctx.functions.get((node.domain, node.op_type))
        if fn is None:
            raise ModelInvalid(f"call to undefined function {(node.domain, node.op_type)}")
        if len(ins) > len(fn.input):
            raise ModelInvalid(f"call to {fn.name}: too many inputs")
        sc = Scope(None, scope.prefix + fn.name + "/")
        for name, v in zip(fn.input, ins):
            if v is not None:
                sc.vals[name] = v
        saved = ctx.opset
        for imp in fn.opset_import:
            if imp.domain in ("", "ai.onnx"):
                ctx.opset = imp.version
        try:
            for n in fn.node:
                eval_node(ctx, n, sc, symbols)
        finally:
            ctx.opset = saved
        if len(node.output) > len(fn.output):
            raise ModelInvalid(f"call to {fn.name}: more outputs than defined")
        outs = [sc.get(o) for o in fn.output]
    elif node.op_type == "If":
        to = eval_graph(ctx, at["then_branch"], Scope(scope, scope.prefix + "then/"), symbols)
        eo = eval_graph(ctx, at["else_branch"], Scope(scope, scope.prefix + "else/"), symbols)
        if len(to) != len(eo):
            raise ModelInvalid("If: branch output counts differ")
        outs = []
        for a, b in zip(to, eo):
            if a.dtype != b.dtype:
                raise ModelInvalid("If: branch element types differ")
            if a.rank != b.rank:
                raise NotEncodable("If: branch ranks differ")
            shp = []
            for x, y in zip(a.shape, b.shape):
                shp.append(x if deq(x, y) is True else ctx.fresh_dim("if"))
            outs.append(SV(a.dtype, tuple(shp)))
    elif node.op_type == "Loop":
        body = at["body"]
        carried = list(ins[2:])
        n_c = len(carried)
        if len(body.input) != 2 + n_c:
            raise ModelInvalid("Loop: body input arity")
        n_scan = len(body.output) - 1 - n_c
        if n_scan < 0:
            raise ModelInvalid("Loop: body output arity")
        sc = Scope(scope, scope.prefix + "loop/")
        sc.vals[body.input[0].name] = SV(np.int64, (), None)
        sc.vals[body.input[1].name] = SV(bool, (), None)
        for bi, v in zip(body.input[2:], carried):
            sc.vals[bi.name] = SV(v.dtype, v.shape, None)
        bo = eval_graph(ctx, body, sc, symbols)
        if bo[0].dtype != np.dtype(bool):
            raise ModelInvalid("Loop: body condition output is not bool")
        outs = []
        for v, o in zip(carried, bo[1 : 1 + n_c]):
            if v.dtype != o.dtype or v.rank != o.rank:
                raise ModelInvalid("Loop: carried value changes type/rank across the iteration")
            for x, y in zip(v.shape, o.shape):
                e = deq(x, y)
                if e is not True:
                    ctx.oblige(e, f"Loop: carried dim changes across the iteration ({x} -> {y})")
            outs.append(SV(v.dtype, v.shape))
        trip = None
        if ins[0] is not None and ins[0].vec is not None:
            trip = ins[0].vec[0]
        for o in bo[1 + n_c:]:
            outs.append(SV(o.dtype, ((trip if (trip is not None and ins[1] is None) else ctx.fresh_dim("trip")),) + tuple(o.shape)))
    else:
        impl = OPS.get(node.op_type)
        if impl is None:
            raise NotEncodable(f"shape rule for {node.op_type}")
        while ins and ins[-1] is None:
            ins.pop()
        try:
            outs = impl(ctx, node, ins, at)
        except (ValueError, IndexError, KeyError, TypeError, AttributeError) as e:
            raise NotEncodable(f"shape rule {node.op_type}: {type(e).__name__}: {e}")
    for name, v in zip(node.output, outs):
        if name == "":
            continue
        if name in scope.vals:
            raise ModelInvalid(f"value '{name}' defined twice in one scope")
        scope.vals[name] = v
        ctx.values[scope.prefix + name] = v
    if len([o for o in node.output if o]) > len(outs):
        raise NotEncodable(f"{node.op_type}: extra outputs not modelled")


def run_model(model):
    """-> (outputs [SV], ctx, symbols dict, input SVs)"""
    opset = 0
    for imp in model.opset_import:
        if imp.domain in ("", "ai.onnx"):
            opset = imp.version
    ctx = SCtx(opset, {(f.domain, f.name): f for f in model.functions})
    symbols = {}
    sc = Scope(None, "")
    init = {i.name for i in model.graph.initializer}
    inputs = []
    for gi in model.graph.input:
        if gi.name in init:
            continue
        sv = sv_from_value_info(ctx, gi, symbols)
        sc.vals[gi.name] = sv
        ctx.values[gi.name] = sv
        inputs.append((gi.name, sv))
    outs = eval_graph(ctx, model.graph, sc, symbols)
    for s in symbols.values():
        ctx.facts.append(z3.And(s >= 1, s < 2 ** 31))
    return outs, ctx, symbols, inputs


# --------------------------------------------------------------------------- JAX _DimExpr -> z3 (Python semantics)

_TOK = re.compile(r"\s*(\d+|[A-Za-z_][A-Za-z_0-9]*|\*\*|[-+*^(),])")


def parse_dim(text: str, symbols: dict):
    """Parse the printed form of a jax symbolic dimension with PYTHON integer semantics."""
    toks = _TOK.findall(text)
    if "".join(toks).replace(" ", "") != text.replace(" ", ""):
        raise NotEncodable(f"cannot tokenise dimension {text!r}")
    pos = [0]

    def peek():
        return toks[pos[0]] if pos[0] < len(toks) else None

    def eat(t=None):
        v = peek()
        if t is not None and v != t:
            raise NotEncodable(f"dimension {text!r}: expected {t} got {v}")
        pos[0] += 1
        return v

    def expr():
        v = term()
        while peek() in ("+", "-"):
            o = eat()
            r = term()
            v = v + r if o == "+" else v - r
        return v

    def term():
        v = power()
        while peek() == "*":
            eat()
            v = v * power()
        return v

    def power():
        v = atom()
        if peek() in ("^", "**"):
            eat()
            k = int(eat())
            r = 1
            for _ in range(k):
                r = r * v
            return r
        return v

    def atom():
        t = eat()
        if t is None:
            raise NotEncodable(f"dimension {text!r}: unexpected end")
        if t == "-":
            return -atom()
        if t == "(":
            v = expr()
            eat(")")
            return v
        if t.isdigit():
            return int(t)
        if peek() == "(":
            eat("(")
            args = [expr()]
            while peek() == ",":
                eat()
                args.append(expr())
            eat(")")
            if t == "floordiv":
                a, b = args
                if not is_sym(a) and not is_sym(b):
                    return a // b
                A, B = (a if is_sym(a) else z3.IntVal(a)), (b if is_sym(b) else z3.IntVal(b))
                return z3.If(B > 0, A / B, (-A) / (-B))  # z3 `/` on Int is floor for positive divisors
            if t == "mod":
                a, b = args
                if not is_sym(a) and not is_sym(b):
                    return a % b
                A, B = (a if is_sym(a) else z3.IntVal(a)), (b if is_sym(b) else z3.IntVal(b))
                return z3.If(B > 0, A % B, -((-A) % (-B)))
            if t == "max":
                return vmax(*args)
            if t == "min":
                return vmin(*args)
            if t == "non_negative":
                return vmax(args[0], 0)
            raise NotEncodable(f"dimension function {t}")
        if t not in symbols:
            symbols[t] = z3.Int(t)
        return symbols[t]

    v = expr()
    if pos[0] != len(toks):
        raise NotEncodable(f"dimension {text!r}: trailing tokens")
    return simp(v) if is_sym(v) else v
