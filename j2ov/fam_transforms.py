"""A7: JAX transformations applied to supported callables (vmap / jit / grad / jvp / vjp /
checkpoint / custom_jvp / custom_vjp)."""
import functools

import numpy as np

F32 = np.float32


def register(reg, P):
    import jax
    import jax.numpy as jnp
    from jax import lax

    W = np.arange(6, dtype=np.float32).reshape(3, 2) / 4.0 - 0.5
    base = {
        "sin": jnp.sin, "tanh": jnp.tanh, "exp": jnp.exp, "relu": jax.nn.relu, "gelu": jax.nn.gelu, "abs": jnp.abs,
        "square": jnp.square, "softmax": jax.nn.softmax, "cumsum": jnp.cumsum, "where": lambda x: jnp.where(x > 0, x, 0.5 * x),
        "clip": lambda x: jnp.clip(x, -1.0, 1.0), "sumsq": lambda x: jnp.sum(x * x), "matmul": lambda x: x @ W,
        "concat": lambda x: jnp.concatenate([x, x * 2.0]), "reshape": lambda x: jnp.reshape(x, (3, 1)) * 2.0,
        "max": lambda x: jnp.max(x), "mean": lambda x: jnp.mean(x), "maximum": lambda x: jnp.maximum(x, 0.25),
        "stack": lambda x: jnp.stack([x, -x]), "tile": lambda x: jnp.tile(x, 2), "take": lambda x: jnp.take(x, jnp.array([2, 0])),
        "prod": lambda x: jnp.prod(x), "log1p_sq": lambda x: jnp.log1p(x * x), "sigmoid": jax.nn.sigmoid,
        "sqrt_abs": lambda x: jnp.sqrt(jnp.abs(x) + 1.0), "power3": lambda x: x ** 3, "dot": lambda x: jnp.dot(x, x),
        "sort": jnp.sort, "logsumexp": lambda x: jax.nn.logsumexp(x), "einsum": lambda x: jnp.einsum("i,ij->j", x, W),
        "lax_mul_add": lambda x: lax.add(lax.mul(x, x), x), "select": lambda x: lax.select(x > 0.0, x, -x),
        "transpose2": lambda x: jnp.transpose(jnp.reshape(x, (1, 3))), "linspace_mul": lambda x: x * jnp.linspace(0.0, 1.0, 3),
        "squeeze_expand": lambda x: jnp.squeeze(jnp.expand_dims(x, 0), 0) + 1.0, "var": lambda x: jnp.var(x),
        "softplus": jax.nn.softplus, "silu": jax.nn.silu, "elu": jax.nn.elu, "leaky": jax.nn.leaky_relu,
        # every function whose tracing-time substitute carries its OWN differentiation rule
        "celu": jax.nn.celu, "selu": jax.nn.selu, "softsign": jax.nn.soft_sign, "mish": jax.nn.mish,
        "prod_axis": lambda x: jnp.prod(jnp.stack([x, x * 2.0]), axis=1), "prod_keep": lambda x: jnp.prod(x, keepdims=True),
        "jnp_select": lambda x: jnp.select([x > 0.5, x < -0.5], [x * x, -x], default=0.25 * x),
        "where3": lambda x: jnp.where(x * x > 1.0, x * 2.0, x * x), "take_neg": lambda x: jnp.take(x * x, jnp.array([-1, 0, 0])),
        "stack_axis1": lambda x: jnp.stack([x, x * x], axis=1), "einsum_outer": lambda x: jnp.einsum("i,j->ij", x, x),
    }

    from .families import late

    base = {k: late(v) for k, v in base.items()}

    def scalarize(f):
        return lambda x: jnp.sum(f(x))

    transforms = {
        "jit": lambda f: jax.jit(f),
        "jit_jit": lambda f: jax.jit(jax.jit(f)),
        "jit_inside": lambda f: (lambda x: jax.jit(f)(x * 1.0) + 0.0),
        "vmap": lambda f: jax.vmap(f),
        "vmap_out1": lambda f: jax.vmap(f, out_axes=-1),
        "grad": lambda f: jax.grad(scalarize(f)),
        "value_and_grad": lambda f: jax.value_and_grad(scalarize(f)),
        "jvp": lambda f: (lambda x, t: jax.jvp(f, (x,), (t,))),
        "vjp": lambda f: (lambda x: jax.vjp(scalarize(f), x)[1](jnp.float32(1.0))[0]),
        "checkpoint": lambda f: jax.checkpoint(f),
        "grad_checkpoint": lambda f: jax.grad(scalarize(jax.checkpoint(f))),
        "vmap_grad": lambda f: jax.vmap(jax.grad(scalarize(f))),
        "hessian_diag": lambda f: (lambda x: jnp.diagonal(jax.hessian(scalarize(f))(x))),
    }
    quick_t = {"jit", "jit_jit", "vmap", "grad", "jvp", "checkpoint", "vjp"}
    own_rule = {"celu", "selu", "softsign", "mish", "prod", "prod_axis", "prod_keep", "jnp_select", "where3", "take_neg", "stack_axis1", "einsum_outer", "silu", "elu", "leaky", "sigmoid", "softplus", "gelu", "relu"}
    quick_b = {"sin", "tanh", "relu", "softmax", "cumsum", "where", "clip", "sumsq", "matmul", "concat", "max", "mean", "take", "gelu", "abs", "select", "einsum", "sort", "square", "maximum"}
    for tn, T in transforms.items():
        for bn, f in base.items():
            if tn.startswith("vmap") and tn != "vmap_grad":
                specs = [((2, 3), F32)]
            elif tn == "vmap_grad":
                specs = [((2, 3), F32)]
            elif tn == "jvp":
                specs = [((3,), F32), ((3,), F32)]
            else:
                specs = [((3,), F32)]
            tier = "quick" if (tn in quick_t and bn in quick_b) or (tn in ("grad", "jvp") and bn in own_rule) else "thorough"
            reg("A7", f"{tn}/{bn}", functools.partial(P, (lambda T, f: T(f))(T, f), specs), tier=tier)

    # vmap over rank-2 EXAMPLES (batch 2 of (2, 3)): batching rules that re-index axes, pad `reps`,
    # shift `axis`, ... are invisible on rank-1 examples
    ex2 = {
        "tile_short_reps": lambda x: jnp.tile(x, 2), "tile_tuple1": lambda x: jnp.tile(x, (3,)), "tile_full": lambda x: jnp.tile(x, (2, 1)),
        "repeat_axis0": lambda x: jnp.repeat(x, 2, axis=0), "repeat_axis1": lambda x: jnp.repeat(x, 2, axis=1),
        "softmax_axis0": lambda x: jax.nn.softmax(x, axis=0), "softmax_axis1": lambda x: jax.nn.softmax(x, axis=1),
        "log_softmax_axis0": lambda x: jax.nn.log_softmax(x, axis=0), "log_softmax_axis1": lambda x: jax.nn.log_softmax(x, axis=1), "cumsum_axis0": lambda x: jnp.cumsum(x, axis=0), "cumsum_axis1": lambda x: jnp.cumsum(x, axis=1),
        "sum_axis0": lambda x: jnp.sum(x, axis=0), "max_axis1_keep": lambda x: jnp.max(x, axis=1, keepdims=True), "argmax_axis0": lambda x: jnp.argmax(x, axis=0),
        "sort_axis0": lambda x: jnp.sort(x, axis=0), "flip_axis0": lambda x: jnp.flip(x, axis=0), "roll_axis1": lambda x: jnp.roll(x, 1, axis=1),
        "transpose": lambda x: jnp.transpose(x), "reshape_flat": lambda x: jnp.reshape(x, (-1,)), "reshape_32": lambda x: jnp.reshape(x, (3, 2)),
        "concat_axis1": lambda x: jnp.concatenate([x, x * 2.0], axis=1), "stack_axis1": lambda x: jnp.stack([x, -x], axis=1), "expand_squeeze": lambda x: jnp.squeeze(jnp.expand_dims(x, 1), 1) * 2.0,
        "take_axis1": lambda x: jnp.take(x, jnp.array([2, 0]), axis=1), "pad_2d": lambda x: jnp.pad(x, ((1, 0), (0, 2))), "where_row": lambda x: jnp.where(x > 0, x, x[:1] * 0.5),
        "one_hot_axis0": lambda x: jax.nn.one_hot(jnp.argmax(x, axis=1), 3, axis=0), "one_hot_last": lambda x: jax.nn.one_hot(jnp.argmax(x, axis=1), 3),
        "matmul_T": lambda x: x @ x.T, "einsum_ij_kj": lambda x: jnp.einsum("ij,kj->ik", x, x), "mean_axis1": lambda x: jnp.mean(x, axis=1), "prod_axis0": lambda x: jnp.prod(x, axis=0),
        "clip_rowmax": lambda x: jnp.clip(x, -1.0, jnp.max(x)), "squeeze_none": lambda x: jnp.squeeze(x[:1]), "diag": lambda x: jnp.diagonal(x @ x.T), "split0": lambda x: jnp.split(x, 2, axis=0)[1],
        "logsumexp_axis0": lambda x: jax.nn.logsumexp(x, axis=0), "var_axis1": lambda x: jnp.var(x, axis=1), "dyn_slice": lambda x: lax.dynamic_slice(x, (0, 1), (2, 2)), "select_n": lambda x: lax.select(x > 0, x, -x * 2.0),
    }
    ex2 = {k: late(v) for k, v in ex2.items()}
    q2 = {"tile_short_reps", "tile_tuple1", "repeat_axis0", "softmax_axis0", "softmax_axis1", "log_softmax_axis0", "log_softmax_axis1", "cumsum_axis0", "sum_axis0", "sort_axis0", "transpose", "reshape_32", "concat_axis1", "stack_axis1", "take_axis1", "pad_2d", "one_hot_axis0", "one_hot_last", "roll_axis1", "flip_axis0", "argmax_axis0"}
    for bn, f in ex2.items():
        reg("A7", f"vmap2/{bn}", functools.partial(P, jax.vmap(f), [((2, 2, 3), F32)]), tier="quick" if bn in q2 else "thorough")
        reg("A7", f"vmap2_axis1/{bn}", functools.partial(P, jax.vmap(f, in_axes=1), [((2, 2, 3), F32)]), tier="thorough")
        reg("A7", f"vmap2_grad/{bn}", functools.partial(P, jax.vmap(jax.grad(lambda x, f=f: jnp.sum(f(x) * 1.0))), [((2, 2, 3), F32)]), tier="thorough")

    # mixed in_axes
    reg("A7", "vmap_in_axes_0_None/mul", functools.partial(P, jax.vmap(lambda x, y: x * y + 1.0, in_axes=(0, None)), [((2, 3), F32), ((3,), F32)]))
    reg("A7", "vmap_in_axes_None_0/where", functools.partial(P, jax.vmap(lambda x, y: jnp.where(x > y, x, y), in_axes=(None, 0)), [((3,), F32), ((2, 3), F32)]))
    reg("A7", "vmap_in_axes_1/matmul", functools.partial(P, jax.vmap(lambda x: x @ W, in_axes=1), [((3, 2), F32)]))
    # operands mapped over DIFFERENT axes with identical (square) shapes: a batcher that skips the
    # axis alignment is invisible on non-square shapes (shape error) and on equal axes
    sq = {"add": jnp.add, "divide": jnp.divide, "maximum": jnp.maximum, "where_gt": lambda a, b: jnp.where(a > b, a, b * 2.0),
          "power_abs": lambda a, b: jnp.power(jnp.abs(a) + 1.0, b), "arctan2": jnp.arctan2, "sub_lax": lax.sub, "less": jnp.less,
          "clip": lambda a, b: jnp.clip(a, -jnp.abs(b), jnp.abs(b)), "minimum": jnp.minimum, "multiply": jnp.multiply, "mod": jnp.mod}
    sq = {k: late(v) for k, v in sq.items()}
    for nm, f in sq.items():
        for axes in ((0, 1), (1, 0)):
            reg("A7", f"vmap_in_axes_{axes[0]}_{axes[1]}_square/{nm}", functools.partial(P, jax.vmap(f, in_axes=axes), [((3, 3), F32), ((3, 3), F32)]), tier="quick" if nm in ("add", "divide", "maximum", "where_gt", "less", "clip") else "thorough")
    reg("A7", "vmap_in_axes_0_2_cube/add", functools.partial(P, jax.vmap(late(jnp.add), in_axes=(0, 2)), [((2, 2, 2), F32), ((2, 2, 2), F32)]))
    reg("A7", "vmap_out_axes_1_square/mul", functools.partial(P, jax.vmap(lambda a, b: a * b, in_axes=(0, 1), out_axes=1), [((3, 3), F32), ((3, 3), F32)]))
    reg("A7", "vmap_nested/sin", functools.partial(P, jax.vmap(jax.vmap(jnp.sin)), [((2, 2, 3), F32)]))

    # index-consuming substitute (one_hot) under vmap: every class axis x batch axis x out axis on a
    # rank-2 example; the batching rule shifts `axis` past the batch dimension, which is invisible
    # when the batch axis is 0 and the class axis is last
    I32 = np.int32
    oh = late(lambda i, ax: jax.nn.one_hot(i, 3, axis=ax))
    for ax in (0, 1, 2, -1, -2):
        for ia in (0, 1, 2):
            for oa in (0, 1, -1):
                tier = "quick" if (ax, ia, oa) in ((0, 1, 0), (1, 0, -1), (-1, 2, 1), (-2, 1, 0), (2, 0, 0)) else "thorough"
                reg("A7", f"vmap_onehot/ax{ax}_in{ia}_out{oa}", functools.partial(P, jax.vmap(lambda i, ax=ax: oh(i, ax), in_axes=ia, out_axes=oa), [((2, 2, 2), I32)]), tier=tier)
    reg("A7", "vmap_onehot/nested_ax0", functools.partial(P, jax.vmap(jax.vmap(lambda i: oh(i, 0), in_axes=1), in_axes=1), [((2, 2, 2), I32)]))

    # two-operand substitutes whose batching rule normalises `axis` against an operand that may or may
    # may not carry the batch dimension: masked softmax with only the mask / only the logits / both mapped
    BOOL = np.bool_
    for fn_name in ("softmax", "log_softmax"):
        for ax in (-1, 0, 1, -2):
            msm = late(lambda x, m, ax=ax, fn_name=fn_name: getattr(jax.nn, fn_name)(x, axis=ax, where=m))
            for ia, shapes in (((None, 0), ((2, 3), (2, 2, 3))), ((0, None), ((2, 2, 3), (2, 3))), ((0, 0), ((2, 2, 3), (2, 2, 3))), ((1, 0), ((2, 2, 3), (2, 2, 3))), ((None, 2), ((2, 3), (2, 3, 2)))):
                tier = "quick" if fn_name == "softmax" and (ax, ia) in ((-1, (None, 0)), (0, (None, 0)), (-1, (0, None)), (1, (1, 0)), (-2, (None, 2))) else "thorough"
                reg("A7", f"vmap_masked_{fn_name}/ax{ax}_in{ia[0]}_{ia[1]}", functools.partial(P, jax.vmap(msm, in_axes=ia), [(shapes[0], F32), (shapes[1], BOOL)]), tier=tier)

    # multi-operand substitutes with exactly ONE operand mapped (the others shared), at a non-leading axis
    one_mapped = {
        "where_cond": (lambda c, a, b: jnp.where(c, a, b * 2.0), [((2, 3), BOOL), ((2, 3), F32), ((2, 3), F32)]),
        "clip_bounds": (lambda x, lo, hi: jnp.clip(x, lo, hi), [((2, 3), F32), ((2, 3), F32), ((2, 3), F32)]),
        "concat_ax1": (lambda a, b, c: jnp.concatenate([a, b, c], axis=1), [((2, 3), F32), ((2, 3), F32), ((2, 3), F32)]),
        "stack_ax-1": (lambda a, b, c: jnp.stack([a, b, c], axis=-1), [((2, 3), F32), ((2, 3), F32), ((2, 3), F32)]),
        "select_case": (lambda a, b, c: jnp.select([a > 0.0, b > 0.0], [a, b], default=c), [((2, 3), F32), ((2, 3), F32), ((2, 3), F32)]),
    }
    for nm, (f, sp) in one_mapped.items():
        f = late(f)
        for k in range(3):
            for bax in (0, 1, 2):
                ia = tuple(bax if j == k else None for j in range(3))
                shp = list(sp[k][0]); shp.insert(bax, 2)
                specs = [(tuple(shp), sp[j][1]) if j == k else sp[j] for j in range(3)]
                reg("A7", f"vmap_one_mapped/{nm}/op{k}_ax{bax}", functools.partial(P, jax.vmap(f, in_axes=ia), specs), tier="quick" if (k, bax) in ((0, 1), (2, 2)) else "thorough")

    # custom_jvp / custom_vjp
    @jax.custom_jvp
    def cj(x):
        return jnp.sin(x) * x

    @cj.defjvp
    def cj_jvp(primals, tangents):
        (x,), (t,) = primals, tangents
        return cj(x), (jnp.cos(x) * x + jnp.sin(x)) * t

    @jax.custom_vjp
    def cv(x):
        return jnp.tanh(x) + x

    def cv_fwd(x):
        return cv(x), x

    def cv_bwd(res, g):
        return (g * (2.0 - jnp.tanh(res) ** 2),)

    cv.defvjp(cv_fwd, cv_bwd)
    reg("A7", "custom_jvp/call", functools.partial(P, lambda x: cj(x) + 1.0, [((3,), F32)]))
    reg("A7", "custom_jvp/grad", functools.partial(P, jax.grad(lambda x: jnp.sum(cj(x))), [((3,), F32)]))
    reg("A7", "custom_jvp/vmap", functools.partial(P, jax.vmap(cj), [((2, 3), F32)]))
    reg("A7", "custom_jvp/jit", functools.partial(P, jax.jit(cj), [((3,), F32)]))
    reg("A7", "custom_vjp/call", functools.partial(P, lambda x: cv(x) * 2.0, [((3,), F32)]))
    reg("A7", "custom_vjp/grad", functools.partial(P, jax.grad(lambda x: jnp.sum(cv(x))), [((3,), F32)]))
    reg("A7", "custom_vjp/vmap", functools.partial(P, jax.vmap(cv), [((2, 3), F32)]))
