"""Translation-validation pipeline for one program: reference jaxpr, real export,
symbolic evaluation of both, per-element solver queries, replay of candidates."""
from __future__ import annotations

import contextlib
import dataclasses
import json
import math
import os
import time
import traceback
from typing import Any, Callable

import numpy as np
import z3

from . import sym as S
from . import onnx_sem, jax_sem, equiv
from .sym import T, NotEncodable, DomainError
from .onnx_sem import ModelInvalid


@dataclasses.dataclass
class Program:
    pid: str
    fn: Callable
    specs: list  # list of (shape tuple (ints or str), np dtype)
    config: dict = dataclasses.field(default_factory=dict)  # extra to_onnx kwargs
    input_params: dict = dataclasses.field(default_factory=dict)
    input_values: list | None = None
    bindings: dict = dataclasses.field(default_factory=dict)  # symbol -> int for value mode
    default_binding: int = 3
    meta: dict = dataclasses.field(default_factory=dict)

    def concrete_shapes(self, bindings=None):
        b = dict(self.bindings)
        if bindings:
            b.update(bindings)
        out = []
        for shp, _ in self.specs:
            out.append(tuple(int(d) if not isinstance(d, str) else int(b.get(d, self.default_binding)) for d in shp))
        return out

    @property
    def x64(self):
        return bool(self.config.get("enable_double_precision", False))


@contextlib.contextmanager
def x64_mode(flag: bool):
    import jax

    prev = bool(jax.config.jax_enable_x64)
    if prev != flag:
        jax.config.update("jax_enable_x64", flag)
    try:
        yield
    finally:
        if bool(jax.config.jax_enable_x64) != prev:
            jax.config.update("jax_enable_x64", prev)


def spec_dtype(dt, x64):
    dt = np.dtype(dt)
    if x64 and dt.kind == "f" and dt.itemsize == 4:
        return np.dtype(np.float64)
    return dt


def trace_reference(prog: Program, shapes=None, x64=None):
    """ClosedJaxpr of the callable with no converter patches active."""
    import jax

    x64 = prog.x64 if x64 is None else x64
    shapes = shapes or prog.concrete_shapes()
    jax.clear_caches()
    with x64_mode(x64):
        sds = [jax.ShapeDtypeStruct(s, spec_dtype(dt, x64)) for s, (_, dt) in zip(shapes, prog.specs)]
        if prog.input_params:
            frozen = dict(prog.input_params)  # the converter freezes input_params at trace time
            cj = jax.make_jaxpr(lambda *a: prog.fn(*a, **frozen))(*sds)
        else:
            cj = jax.make_jaxpr(prog.fn)(*sds)
    return cj


def export(prog: Program, **override):
    from jax2onnx import to_onnx
    import jax

    cfg = dict(prog.config)
    cfg.update(override)
    x64 = bool(cfg.get("enable_double_precision", False))
    specs = [jax.ShapeDtypeStruct(tuple(shp), spec_dtype(dt, x64)) if not any(isinstance(d, str) for d in shp) else None for shp, dt in prog.specs]
    ins = []
    for (shp, dt), sds in zip(prog.specs, specs):
        if sds is not None:
            ins.append(sds)
        else:
            # symbolic dims: to_onnx accepts ShapeDtypeStruct only with concrete dims; pass tuple
            # (dtype defaults to float) -- for non-float symbolic inputs use a struct-like object
            if np.dtype(dt).kind == "f":
                ins.append(tuple(shp))
            else:
                ins.append(_ShapeDtype(tuple(shp), np.dtype(dt)))
    kw = {}
    if prog.input_params:
        kw["input_params"] = dict(prog.input_params)
    model = to_onnx(prog.fn, ins, model_name="m", **kw, **cfg)
    return model


class _ShapeDtype:
    def __init__(self, shape, dtype):
        self.shape = shape
        self.dtype = dtype


# --------------------------------------------------------------------------- concrete oracles

def ort_run(model, feeds: dict):
    import onnxruntime as ort

    so = ort.SessionOptions()
    so.log_severity_level = 4
    sess = ort.InferenceSession(model.SerializeToString(), so, providers=["CPUExecutionProvider"])
    ro = ort.RunOptions()
    import threading

    def _stop():
        ro.terminate = True

    tm = threading.Timer(float(os.environ.get("J2OV_ORT_TIMEOUT", "20")), _stop)
    tm.daemon = True
    tm.start()
    try:
        return sess.run(None, feeds, run_options=ro)
    finally:
        tm.cancel()


def jax_eval(cj, args, x64):
    import jax

    with x64_mode(x64):
        outs = jax.core.eval_jaxpr(cj.jaxpr, cj.consts, *args)
    return [np.asarray(o) for o in outs]


def _test_vectors(prog, shapes, dtypes, int_nozero, seed=0):
    """repo-style seeded draw + a fixed boundary vector (operands with a documented monotonicity
    precondition are sorted accordingly)."""
    vecs = _test_vectors_raw(prog, shapes, dtypes, int_nozero, seed)
    srt = prog.meta.get("sorted_inputs") or {}
    if srt:
        for v in vecs:
            for idx, mode in srt.items():
                if idx < len(v) and np.asarray(v[idx]).ndim >= 1:
                    a = np.sort(np.asarray(v[idx]), axis=-1)
                    if mode == "sinc":
                        a = a + np.arange(a.shape[-1]).astype(a.dtype) * (np.asarray(1, dtype=a.dtype) if a.dtype.kind in "iu" else np.asarray(0.125, dtype=a.dtype))
                    if mode == "dec":
                        a = a[..., ::-1]
                    v[idx] = np.ascontiguousarray(a)
    return vecs


def _test_vectors_raw(prog, shapes, dtypes, int_nozero, seed=0):
    rng = np.random.default_rng(1234 + seed)
    vecs = []
    v = []
    for shp, dt in zip(shapes, dtypes):
        dt = np.dtype(dt)
        if dt.kind == "f":
            v.append((rng.standard_normal(shp) * 0.25).astype(dt))
        elif dt.kind in "iu":
            lo = 1 if int_nozero else 0
            v.append(rng.integers(lo, 5, size=shp).astype(dt))
        elif dt == np.bool_:
            v.append(rng.random(shp) > 0.5)
        else:
            raise NotEncodable(f"input dtype {dt}")
    vecs.append(v)
    if prog.input_values is not None:
        try:
            iv = [np.asarray(a).astype(dt) for a, dt in zip(prog.input_values, dtypes)]
            if all(a.shape == tuple(s) for a, s in zip(iv, shapes)):
                vecs.append(iv)
        except Exception:
            pass
    fb = np.array([0.0, 0.5, -0.5, 1.5, -1.5, 2.5, -2.5, -1.0, 1.0, 3.7, -3.2, 1e-3, 100.0, -0.25])
    ib = np.array([0, 1, -1, 2, -2, 3, 5, -7, 4, 100]) if not int_nozero else np.array([1, -1, 2, -2, 3, 5, -7, 4, 100, -3])
    v = []
    off = 0
    for shp, dt in zip(shapes, dtypes):
        dt = np.dtype(dt)
        n = int(np.prod(shp)) if len(shp) else 1
        if dt.kind == "f":
            a = fb[(np.arange(n) + off) % len(fb)].astype(dt)
        elif dt.kind == "i":
            a = ib[(np.arange(n) + off) % len(ib)].astype(dt)
        elif dt.kind == "u":
            a = np.abs(ib[(np.arange(n) + off) % len(ib)]).astype(dt)
        else:
            a = ((np.arange(n) + off) % 3 == 0)
        v.append(np.asarray(a).reshape(shp))
        off += 3
    vecs.append(v)
    return vecs


def _close(a, b, tol=2e-3):
    a, b = np.asarray(a), np.asarray(b)
    if a.shape != b.shape:
        return False
    if a.dtype.kind in "biu" or b.dtype.kind in "biu":
        if a.dtype.kind == "f" or b.dtype.kind == "f":
            return False
        return bool(np.array_equal(a.astype(np.int64), b.astype(np.int64))) if a.dtype.kind != "u" or True else False
    a64, b64 = a.astype(np.float64), b.astype(np.float64)
    nan = np.isnan(a64) | np.isnan(b64)
    if np.any(np.isnan(a64) != np.isnan(b64)):
        return False
    inf = np.isinf(a64) | np.isinf(b64)
    if np.any(a64[inf & ~nan] != b64[inf & ~nan]):
        return False
    ok = ~(nan | inf)
    return bool(np.all(np.abs(a64[ok] - b64[ok]) <= tol * (1 + np.abs(b64[ok]))))


def _T_to_np(t: T):
    if t.kind == "f":
        out = np.empty(t.shape, dtype=np.float64)
        flat = out.reshape(-1) if out.ndim else None
        src = t.a.reshape(-1) if t.a.ndim else [t.a[()]]
        for i, v in enumerate(src):
            if S.is_sym(v):
                raise NotEncodable("symbolic value in concrete evaluation")
            if flat is None:
                out[()] = float(v)
            else:
                flat[i] = float(v)
        return out
    return t.to_numpy()


# --------------------------------------------------------------------------- analysis

@dataclasses.dataclass
class Options:
    tau: float = 1e-3
    timeout_ms: int = 5000
    max_queries: int = 64
    unroll: int = 6
    selfcheck: bool = True
    replay: bool = True
    max_input_elems: int = 4096
    bindings: dict | None = None
    max_unknown: int = 2
    budget_s: float = 40.0
    ort_reject_is_violation: bool = False


def model_io(model, prog):
    init = {i.name for i in model.graph.initializer}
    return [gi for gi in model.graph.input if gi.name not in init]


def feeds_for(model, prog: Program, arrays, layout_in=()):
    """Map positional arrays (+ input_params) to model input names."""
    gins = model_io(model, prog)
    npos = len(prog.specs)
    names = [g.name for g in gins]
    feeds = {}
    pnames = list(prog.input_params.keys())
    pos_names = [n for n in names if n not in pnames]
    if len(pos_names) != npos:
        raise ModelInvalid(f"model has {len(pos_names)} positional inputs, callable has {npos}")
    for n, a in zip(pos_names, arrays):
        feeds[n] = a
    return feeds, pos_names


def analyze(prog: Program, opts: Options | None = None) -> dict:
    """Full C01-style obligation for one program."""
    opts = opts or Options()
    t0 = time.time()
    out: dict[str, Any] = {"pid": prog.pid, "status": None}
    S.reset_specials()
    try:
        shapes = prog.concrete_shapes(opts.bindings)
        n_in = sum(int(np.prod(s)) if len(s) else 1 for s in shapes)
        if n_in > opts.max_input_elems:
            out.update(status="out_of_bound", reason=f"{n_in} input elements")
            return out
        try:
            cj = trace_reference(prog, shapes)
        except Exception as e:
            out.update(status="reference_failed", reason=f"{type(e).__name__}: {e}"[:300])
            return out
        try:
            model = export(prog)
        except Exception as e:
            out.update(status="export_failed", reason=f"{type(e).__name__}: {e}"[:300])
            return out
        res = validate(prog, cj, model, shapes, opts)
        out.update(res)
        return out
    except (NotEncodable,) as e:
        out.update(status="not_encodable", reason=str(e)[:300])
        return out
    except DomainError as e:
        out.update(status="not_encodable", reason="domain: " + str(e)[:300])
        return out
    except Exception as e:  # harness problem for this program
        out.update(status="harness_error", reason=f"{type(e).__name__}: {e}"[:300], tb=traceback.format_exc()[-1500:])
        return out
    finally:
        out["wall_s"] = round(time.time() - t0, 3)


def _dtypes_for(prog, x64):
    return [spec_dtype(dt, x64) for _, dt in prog.specs]


def validate(prog, cj, model, shapes, opts: Options, ref_fn=None, pre=None) -> dict:
    """cj: reference ClosedJaxpr; model: exported ModelProto."""
    out: dict[str, Any] = {}
    x64 = prog.x64
    dtypes = _dtypes_for(prog, x64)
    # a double-precision program whose own JAX x64 evaluation narrows to float32 internally
    # (jax.nn.dot_product_attention computes its softmax in float32): the reference carries
    # single-precision error itself, so the single-precision criterion applies
    prog.meta["ref_narrow"] = bool(x64 and ref_narrow_float(cj))
    out["ref_narrow_float"] = prog.meta["ref_narrow"]
    # declared input element types may differ (the model is authoritative for feeding)
    constraints = []
    ins = [S.fresh_input(f"x{i}", s, dt, constraints) for i, (s, dt) in enumerate(zip(shapes, dtypes))]
    for idx, mode in (prog.meta.get("sorted_inputs") or {}).items():
        if idx < len(ins) and ins[idx].a.ndim >= 1:
            a = ins[idx].a
            for pos in np.ndindex(*a.shape[:-1]):
                row = a[pos]
                for k in range(len(row) - 1):
                    x, y = (row[k], row[k + 1]) if mode != "dec" else (row[k + 1], row[k])
                    # "sinc": strictly increasing with gaps >= 2^-20 (jnp.interp treats |dx| below ~5e-32
                    # as a repeated abscissa; gaps below the bound are outside the claim)
                    constraints.append((y - x >= (1 if ins[idx].kind == "i" else 2.0 ** -20)) if mode == "sinc" else x <= y)
    pvals = {k: S.from_numpy(np.asarray(v)) for k, v in prog.input_params.items()}
    gins = model_io(model, prog)
    pnames = set(prog.input_params)
    pos_names = [g.name for g in gins if g.name not in pnames]
    if len(pos_names) != len(ins):
        out.update(status="candidate", kind="interface", reason=f"{len(pos_names)} model inputs for {len(ins)} positional args")
        return out
    in_nchw = set(prog.config.get("inputs_as_nchw") or ())
    out_nchw = set(prog.config.get("outputs_as_nchw") or ())
    feeds = {}
    for i, (n, t) in enumerate(zip(pos_names, ins)):
        feeds[n] = T(t.dtype, np.transpose(t.a, (0, 3, 1, 2))) if i in in_nchw else t
    # declared element types of positional inputs
    for g, t in zip([g for g in gins if g.name not in pnames], ins):
        mdt = onnx_sem.np_dtype_of(g.type.tensor_type.elem_type)
        if mdt != t.dtype:
            if S.kind_of(mdt) != t.kind:
                out.update(status="candidate", kind="interface", reason=f"input {g.name} declared {mdt}, callable takes {t.dtype}")
                return out
            feeds[g.name] = T(mdt, feeds[g.name].a)
    for k, v in pvals.items():
        g = [g for g in gins if g.name == k]
        if g:
            mdt = onnx_sem.np_dtype_of(g[0].type.tensor_type.elem_type)
            feeds[k] = T(mdt, v.a) if S.kind_of(mdt) == v.kind else v
    # ---- element type of every output: same class (bool / integer / float) as the JAX result; decided
    # on ORT, not on annotations.  (A float64 output where JAX returns float32 carries the same values:
    # that is C09's subject - "float outputs are float32" with the flag off - not C01's.)
    if opts.replay:
        declared = [onnx_sem.np_dtype_of(g.type.tensor_type.elem_type) if g.type.tensor_type.elem_type else None for g in model.graph.output]
        javals = [np.dtype(v.aval.dtype) for v in cj.jaxpr.outvars]
        if len(declared) == len(javals):
            for i, (od, jd) in enumerate(zip(declared, javals)):
                if od is None:
                    continue
                ko, kj = S.kind_of(od), S.kind_of(jd)
                if ko != kj:
                    differs, info = replay_concrete(prog, cj, model, _test_vectors(prog, shapes, dtypes, True)[0], pos_names)
                    if differs and "element type" in str(info.get("why")):
                        out.update(status="violation", kind="dtype", reason=f"output {i}: model element type {od}, JAX {jd}", witness=info)
                        return out
                    break
    # ---- self-validation on concrete inputs
    sel = {"checked": 0, "failed": []}
    if opts.selfcheck:
        r = selfcheck(prog, cj, model, shapes, dtypes, pos_names, opts)
        sel = r
        if r.get("ort_rejects") and not opts.ort_reject_is_violation:
            # other properties leave "ONNX Runtime cannot load the model" to C01/C03
            out.update(status="selfcheck_failed", reason="ONNX Runtime rejects the model (reported by C01/C03): " + r["ort_rejects"][:200], selfcheck=sel)
            return out
        if r.get("ort_rejects"):
            out.update(status="candidate", kind="invalid_model", reason="ONNX Runtime rejects the model: " + r["ort_rejects"], selfcheck=sel)
            return _replay_invalid(prog, cj, model, shapes, dtypes, pos_names, out, opts)
        if r["failed"]:
            out.update(status="selfcheck_failed", reason="; ".join(r["failed"])[:400], selfcheck=sel)
            return out
    # ---- symbolic evaluation
    jctx = jax_sem.JCtx(unroll=opts.unroll)
    jargs = list(ins)
    consts = [jax_sem.literal_T(np.asarray(c), v.aval) for c, v in zip(cj.consts, cj.jaxpr.constvars)]
    if prog.meta.get("ref_narrow"):
        S.IDENTITY_ROUNDINGS = {"rnd32"}
    try:
        ref_outs = jax_sem.eval_jaxpr(jctx, cj.jaxpr, consts, jargs)
    finally:
        S.IDENTITY_ROUNDINGS = set()
    try:
        onnx_outs, octx = onnx_sem.run_model(model, feeds, unroll=opts.unroll)
    except ModelInvalid as e:
        out.update(status="candidate", kind="invalid_model", reason=str(e)[:300])
        out["selfcheck"] = sel
        return _replay_invalid(prog, cj, model, shapes, dtypes, pos_names, out, opts)
    # outputs flagged NCHW: model returns NCHW of the JAX (NHWC) result
    ref_cmp = []
    for i, r in enumerate(ref_outs):
        if i in out_nchw and r.ndim == 4:
            ref_cmp.append(T(r.dtype, np.transpose(r.a, (0, 3, 1, 2))))
        else:
            ref_cmp.append(r)
    stats = equiv.Stats()
    base_assumptions = constraints + S.representability_axioms(ins) + jctx.domain + jctx.unwind + octx.unwind + octx.domain
    assumptions = base_assumptions + jctx.index_domain
    cmp = equiv.compare_outputs(
        onnx_outs,
        ref_cmp,
        assumptions,
        tau=(1e-9 if x64 and opts.tau == 1e-3 else opts.tau),
        timeout_ms=opts.timeout_ms,
        max_queries=opts.max_queries,
        stats=stats,
        obligations=octx.obligations,
        max_unknown=opts.max_unknown,
        budget_s=opts.budget_s,
    )
    out["stats"] = stats.as_dict()
    out["selfcheck"] = sel
    out["ops"] = sorted(o for d, o in octx.ops_seen if d in ("", "ai.onnx"))
    out["prims"] = sorted(jctx.prims_seen)
    out["abstractions"] = sorted(S.used_specials())
    out["unwinding"] = len(jctx.unwind) + len(octx.unwind)
    out["partial"] = cmp.get("partial", False)
    out["n_out_elems"] = int(sum(o.size for o in ref_outs))
    if cmp["status"] == "shape_mismatch":
        out.update(status="candidate", kind="shape", reason="; ".join(cmp["detail"]))
        if opts.replay:
            return _replay_shape(prog, cj, model, shapes, dtypes, pos_names, out, opts)
        return out
    if cmp["status"] == "vacuous":
        out.update(status="harness_error", reason="vacuity twin unsat: assumptions contradictory")
        return out
    if cmp["status"] == "sat":
        out["status"] = "candidate"
        out["kind"] = "value"
        if opts.replay:
            return _replay_candidates(prog, cj, model, shapes, dtypes, pos_names, ins, cmp["candidates"], out, opts)
        return out
    # phase B: outside the index-in-bounds domain JAX clamps / fills; an exported model that raises
    # there is loud (accepted), one that silently returns something else is a violation
    if jctx.index_domain and opts.replay:
        stB = equiv.Stats()
        cmpB = equiv.compare_outputs(onnx_outs, ref_cmp, base_assumptions + [z3.Not(z3.And(*jctx.index_domain))], tau=opts.tau, timeout_ms=min(opts.timeout_ms, 3000), max_queries=8, stats=stB, obligations=(), twin=False, max_sat=4)
        out["phase_b"] = stB.as_dict()
        for c in cmpB.get("candidates", []):
            if c.model is None:
                continue
            arrays = equiv.model_inputs(c.model, ins)
            try:
                differs, info = replay_concrete(prog, cj, model, arrays, pos_names)
            except Exception:
                continue
            if differs and "ort_error" not in info:
                out["status"] = "violation"
                out["kind"] = "silent_out_of_bounds_index"
                out["witness"] = {"what": "index outside the bounds: JAX clamps/fills, the model silently returns something else", **info}
                return out
    out["status"] = "proved" if cmp["status"] == "proved" else "inconclusive"
    if out["status"] == "proved" and cmp.get("partial"):
        out["status"] = "partial"
        out["reason"] = "query budget exhausted; remaining elements undecided"
    if out["status"] == "inconclusive":
        out["reason"] = f"{cmp.get('unknown', 0)} solver unknown"
    return out


def selfcheck(prog, cj, model, shapes, dtypes, pos_names, opts):
    res = {"checked": 0, "failed": []}
    has_div = any(e.primitive.name in ("div", "rem") for e in _all_eqns(cj.jaxpr)) or any(
        n.op_type in ("Div", "Mod") for n in _all_nodes(model.graph)
    )
    in_nchw = set(prog.config.get("inputs_as_nchw") or ())
    vecs = _test_vectors(prog, shapes, dtypes, int_nozero=has_div)
    has_loop = any(e.primitive.name == "while" for e in _all_eqns(cj.jaxpr)) or any(n.op_type == "Loop" for n in _all_nodes(model.graph))
    if has_loop:
        vecs = vecs[:-1]  # boundary values may not terminate a data-dependent loop
    gins = {g.name: g for g in model_io(model, prog)}
    for vi, arrays in enumerate(vecs):
        feeds_np = {}
        feeds_T = {}
        for i, (n, a) in enumerate(zip(pos_names, arrays)):
            mdt = onnx_sem.np_dtype_of(gins[n].type.tensor_type.elem_type)
            aa = np.transpose(a, (0, 3, 1, 2)) if i in in_nchw else a
            feeds_np[n] = np.require(aa.astype(mdt), requirements="C")
            feeds_T[n] = S.from_numpy(feeds_np[n], mdt)
        for k, v in prog.input_params.items():
            if k in gins:
                mdt = onnx_sem.np_dtype_of(gins[k].type.tensor_type.elem_type)
                feeds_np[k] = np.asarray(v).astype(mdt)
                feeds_T[k] = S.from_numpy(feeds_np[k], mdt)
        # ONNX evaluator vs ORT
        try:
            ort_outs = ort_run(model, feeds_np)
        except Exception as e:
            ort_outs = None
            ort_err = f"{type(e).__name__}: {str(e)[:600]}"
            if any(k in ort_err for k in ("INVALID_GRAPH", "Type Error", "INVALID_PROTOBUF", "Failed to load model")):
                # ONNX Runtime refuses the model itself (not a missing kernel, not an unsupported opset)
                res["ort_rejects"] = ort_err[:300]
                return res
        try:
            mine, _ = onnx_sem.run_model(model, feeds_T, unroll=64)
            mine_np = [_T_to_np(t) for t in mine]
        except NotEncodable:
            raise
        except DomainError:
            mine_np = "domain"
        except ModelInvalid:
            mine_np = None
        if isinstance(mine_np, str):
            pass
        elif ort_outs is None or mine_np is None:
            if (ort_outs is None) != (mine_np is None):
                res["failed"].append(f"vec{vi}: onnx evaluator/ORT disagree on validity ({'ORT failed: ' + ort_err if ort_outs is None else 'evaluator refused'})")
        else:
            if len(ort_outs) != len(mine_np) or not all(_close(m, o) for m, o in zip(mine_np, ort_outs)):
                res["failed"].append(f"vec{vi}: onnx evaluator != ORT")
        # jaxpr evaluator vs JAX
        jargs_np = [np.asarray(a) for a in arrays]
        jout = jax_eval(cj, jargs_np, prog.x64)
        jctx = jax_sem.JCtx(unroll=64)
        consts = [jax_sem.literal_T(np.asarray(c), v.aval) for c, v in zip(cj.consts, cj.jaxpr.constvars)]
        jargs_T = [S.from_numpy(a) for a in jargs_np]
        try:
            jm = jax_sem.eval_jaxpr(jctx, cj.jaxpr, consts, jargs_T)
        except DomainError:
            jctx.violated = True
            jm = None
        if jctx.violated:
            # this vector is outside the JAX domain (e.g. out-of-range selector): discard it entirely
            res["failed"] = [f for f in res["failed"] if not f.startswith(f"vec{vi}:")]
            res.setdefault("out_of_domain_vectors", 0)
            res["out_of_domain_vectors"] += 1
            continue
        jm_np = [_T_to_np(t) for t in jm]
        if len(jm_np) != len(jout) or not all(_close(m, o) for m, o in zip(jm_np, jout)):
            res["failed"].append(f"vec{vi}: jaxpr evaluator != JAX")
        res["checked"] += 1
    return res


def ref_narrow_float(cj) -> bool:
    """does the reference jaxpr produce a floating value narrower than float64 anywhere?"""
    for e in _all_eqns(cj.jaxpr):
        for v in e.outvars:
            dt = getattr(getattr(v, "aval", None), "dtype", None)
            if dt is not None and np.dtype(dt).kind == "f" and np.dtype(dt).itemsize < 8:
                return True
            if dt is not None and np.dtype(dt).name == "bfloat16":
                return True
    return False


def _all_eqns(jaxpr):
    for e in jaxpr.eqns:
        yield e
        for v in e.params.values():
            for sub in (v if isinstance(v, (tuple, list)) else [v]):
                j = getattr(sub, "jaxpr", None)
                if j is not None and hasattr(j, "eqns"):
                    yield from _all_eqns(j)
                elif hasattr(sub, "eqns"):
                    yield from _all_eqns(sub)


def _all_nodes(graph):
    import onnx

    for n in graph.node:
        yield n
        for a in n.attribute:
            if a.type == onnx.AttributeProto.GRAPH:
                yield from _all_nodes(a.g)
            elif a.type == onnx.AttributeProto.GRAPHS:
                for g in a.graphs:
                    yield from _all_nodes(g)


# --------------------------------------------------------------------------- replay

def replay_concrete(prog, cj, model, arrays, pos_names):
    """Run the real model in ORT and the real reference in JAX on concrete inputs.
    Returns (differs: bool, info dict)."""
    gins = {g.name: g for g in model_io(model, prog)}
    in_nchw = set(prog.config.get("inputs_as_nchw") or ())
    out_nchw = set(prog.config.get("outputs_as_nchw") or ())
    feeds = {}
    for i, (n, a) in enumerate(zip(pos_names, arrays)):
        mdt = onnx_sem.np_dtype_of(gins[n].type.tensor_type.elem_type)
        aa = np.transpose(a, (0, 3, 1, 2)) if i in in_nchw else a
        feeds[n] = np.require(np.asarray(aa).astype(mdt), requirements="C")
    for k, v in prog.input_params.items():
        if k in gins:
            mdt = onnx_sem.np_dtype_of(gins[k].type.tensor_type.elem_type)
            feeds[k] = np.asarray(v).astype(mdt)
    jargs = [np.asarray(a) for a in arrays]
    jout = jax_eval(cj, jargs, prog.x64)
    jout = [np.transpose(o, (0, 3, 1, 2)) if (i in out_nchw and o.ndim == 4) else o for i, o in enumerate(jout)]
    info = {"inputs": [np.asarray(a).tolist() for a in arrays], "jax": [np.asarray(o).tolist() for o in jout]}
    try:
        oout = ort_run(model, feeds)
    except Exception as e:
        info["ort_error"] = f"{type(e).__name__}: {str(e)[:300]}"
        return True, info
    info["ort"] = [np.asarray(o).tolist() for o in oout]
    if len(oout) != len(jout):
        info["why"] = "output count"
        return True, info
    # high-precision reference for the float criterion
    j64 = None
    for i, (o, j) in enumerate(zip(oout, jout)):
        o, j = np.asarray(o), np.asarray(j)
        if o.shape != j.shape:
            info["why"] = f"output {i} shape {o.shape} vs {j.shape}"
            return True, info
        if (o.dtype.kind in "iu") != (j.dtype.kind in "iu") or (o.dtype.kind == "b") != (j.dtype.kind == "b"):
            info["why"] = f"output {i} element type: model {o.dtype}, JAX {j.dtype}"
            return True, info
        if j.dtype.kind in "biu":
            if not np.array_equal(o.astype(np.int64), j.astype(np.int64)):
                info["why"] = f"output {i} integer/bool values differ"
                return True, info
        else:
            o64, j64a = o.astype(np.float64), j.astype(np.float64)
            # an EXACT infinity of the reference (also infinite when evaluated in x64, i.e. not a
            # single-precision overflow) must come back as the same infinity
            with np.errstate(all="ignore"):
                inf_bad = np.isinf(j64a) & ~(o64 == j64a)
            if np.any(inf_bad):
                if j64 is None:
                    j64 = _jax64(prog, arrays)
                if j64 is not None and len(j64) == len(jout):
                    r_inf = np.asarray(j64[i], dtype=np.float64)
                    if i in out_nchw and r_inf.ndim == 4:
                        r_inf = np.transpose(r_inf, (0, 3, 1, 2))
                    if r_inf.shape == j64a.shape and np.any(inf_bad & (r_inf == j64a)):
                        info["why"] = f"output {i}: JAX returns an exact infinity, the model does not"
                        return True, info
                elif np.any(inf_bad & np.isfinite(o64) & (np.abs(o64) < 1e30)):
                    # no x64 evaluation available (the callable pins float32 operands): a model value far
                    # from the overflow threshold where JAX returns an infinity is not a rounding matter
                    info["why"] = f"output {i}: JAX returns an infinity, the model a moderate finite value"
                    return True, info
            fin = np.isfinite(j64a)
            strict64 = prog.x64 and not prog.meta.get("ref_narrow")
            if strict64:
                bad = fin & ~(np.abs(o64 - j64a) <= 1e-9 * (1 + np.abs(j64a)))
            else:
                bad = fin & ~(np.abs(o64 - j64a) <= 1e-3 * (1 + np.abs(j64a)))
            if np.any(bad):
                # exclude ill-conditioned points: JAX's own f32 error vs f64 evaluation
                if True:
                    if j64 is None:
                        j64 = _jax64(prog, arrays)
                    if j64 is not None and len(j64) == len(jout):
                        r64 = np.asarray(j64[i], dtype=np.float64)
                        if i in out_nchw and r64.ndim == 4:
                            r64 = np.transpose(r64, (0, 3, 1, 2))
                        if r64.shape == j64a.shape:
                            own = np.abs(j64a - r64)
                            # conditioning: a 1-ulp change of the float32 inputs is error JAX's own
                            # single-precision evaluation already carries
                            # directions: all inputs up / down, then seeded random sign patterns (a common
                            # shift can cancel, e.g. in softmax); per direction pair the smaller of the two
                            # sides counts: smooth ill-conditioning varies on BOTH sides, a step at an exactly
                            # representable tie (round/floor/compare) is constant on one side and stays in
                            drng = np.random.default_rng(11)
                            patterns = [None] + [[drng.integers(0, 2, size=np.asarray(a).shape) * 2 - 1 for a in arrays] for _ in range(3)]
                            for pat_i, pat in enumerate(patterns):
                                int_mult = pat_i % 3 + 1  # integers beyond the mantissa: 1, 2, 3 float steps (chaotic f at that scale)
                                deltas = []
                                for sgn in (+1, -1):
                                    pert = []
                                    clipped_side = False
                                    for ai, a in enumerate(arrays):
                                        a = np.asarray(a)
                                        if a.dtype.kind in "iu" and a.size:
                                            # an integer beyond the float mantissa is rounded when JAX converts it:
                                            # that rounding is part of JAX's own evaluation error as well
                                            ft = np.float64 if strict64 else np.float32
                                            step = np.spacing(np.abs(a.astype(np.int64)).astype(ft)).astype(np.float64)
                                            step = np.where(step > 1, step, 0).astype(np.int64)
                                            if not step.any():
                                                pert.append(a)
                                                continue
                                            d = np.full(a.shape, sgn, dtype=np.int64) if pat is None else sgn * pat[ai]
                                            ii = np.iinfo(a.dtype)
                                            moved = a.astype(np.int64) + d * step * int_mult
                                            if np.any((moved < ii.min) | (moved > ii.max)):
                                                clipped_side = True  # edge of the integer range: only the other side counts
                                            pert.append(np.clip(moved, ii.min, ii.max).astype(a.dtype))
                                            continue
                                        if a.dtype.kind != "f":
                                            pert.append(a)
                                            continue
                                        d = np.full(a.shape, sgn, dtype=np.int64) if pat is None else sgn * pat[ai]
                                        pert.append(np.where(d > 0, np.nextafter(a, np.asarray(np.inf, dtype=a.dtype)), np.nextafter(a, np.asarray(-np.inf, dtype=a.dtype))).astype(a.dtype))
                                    p64 = _jax64(prog, pert)
                                    if p64 is not None and len(p64) == len(jout):
                                        q = np.asarray(p64[i], dtype=np.float64)
                                        if i in out_nchw and q.ndim == 4:
                                            q = np.transpose(q, (0, 3, 1, 2))
                                        if q.shape == r64.shape:
                                            with np.errstate(all="ignore"):
                                                dd = np.nan_to_num(np.abs(q - r64), nan=np.inf)
                                            deltas.append(np.full_like(dd, np.inf) if clipped_side else dd)
                                            if not strict64:
                                                # JAX's OWN single-precision error in this 1-ulp neighbourhood: where its
                                                # float32 evaluation of a neighbouring input disagrees with the x64
                                                # evaluation of the same input (a decision taken on rounded
                                                # intermediates, e.g. softmax of logits of magnitude 1e10), the
                                                # float32 reference is not reliable here; an exact tie (round(2.5))
                                                # shows no such disagreement and stays in
                                                try:
                                                    j32p = np.asarray(jax_eval(cj, [np.asarray(a) for a in pert], prog.x64)[i], dtype=np.float64)
                                                    if i in out_nchw and j32p.ndim == 4:
                                                        j32p = np.transpose(j32p, (0, 3, 1, 2))
                                                    if j32p.shape == q.shape:
                                                        with np.errstate(all="ignore"):
                                                            own = np.maximum(own, np.nan_to_num(np.abs(j32p - q), nan=0.0, posinf=0.0))
                                                except Exception:
                                                    pass
                                if len(deltas) == 2:
                                    own = np.maximum(own, np.minimum(deltas[0], deltas[1]))
                            # where a 1-ulp input change moves the reference by more than a quarter of its
                            # own magnitude (tan next to a pole), JAX's evaluation has no correct digit
                            # to compare with: excluded whatever the model returns there (inf included)
                            with np.errstate(all="ignore"):
                                hopeless = np.isfinite(r64) & (own > 0.25 * np.abs(r64)) & (np.abs(r64) > 1.0)
                            bad = bad & ~hopeless
                            slack = 1e-12 if strict64 else 1e-5
                            bad = bad & np.isfinite(r64) & (np.abs(o64 - r64) > 32 * own + slack * (1 + np.abs(r64)))
                if np.any(bad) and strict64:
                    # double-precision accuracy of ONNX Runtime's own kernels (its double Softmax carries
                    # ~1e-8 relative error) is outside the claim: when the ONNX reference evaluator
                    # (numpy, float64) agrees with JAX on this very model and input, the difference is
                    # ORT's arithmetic, not the exported graph
                    if "_refeval" not in info:
                        info["_refeval"] = _reference_eval(model, feeds)
                    ro = info["_refeval"]
                    if ro is not None and len(ro) == len(oout) and np.asarray(ro[i]).shape == o64.shape:
                        r = np.asarray(ro[i]).astype(np.float64)
                        if not np.any(fin & ~(np.abs(r - j64a) <= 1e-9 * (1 + np.abs(j64a)))):
                            info.setdefault("ort_kernel_accuracy", []).append(i)
                            bad = np.zeros_like(bad)
                if np.any(bad):
                    info.pop("_refeval", None)
                    info["why"] = f"output {i} float values differ beyond tolerance"
                    return True, info
    info.pop("_refeval", None)
    return False, info


def _reference_eval(model, feeds):
    try:
        from onnx.reference import ReferenceEvaluator

        return ReferenceEvaluator(model).run(None, feeds)
    except Exception:
        return None


def _jax64(prog, arrays):
    import jax

    try:
        jax.clear_caches()
        with x64_mode(True):
            args = [np.asarray(a).astype(np.float64) if np.asarray(a).dtype.kind == "f" else np.asarray(a) for a in arrays]
            frozen = dict(prog.input_params)
            cj = jax.make_jaxpr(lambda *a: prog.fn(*a, **frozen))(*args)
            for e in _all_eqns(cj.jaxpr):
                if jax_sem._is_converter_only(e.primitive.name):
                    return None
            outs = jax.core.eval_jaxpr(cj.jaxpr, cj.consts, *args)
        return [np.asarray(o) for o in outs]
    except Exception:
        return None


def _write_replay(prog, info):
    d = os.path.join(os.environ.get("J2OV_REPLAY_DIR", "/verif/replays"), info.get("property", "misc"))
    os.makedirs(d, exist_ok=True)
    safe = "".join(c if c.isalnum() or c in "-_.=" else "_" for c in prog.pid)[:150]
    path = os.path.join(d, safe + ".json")
    with open(path, "w") as f:
        json.dump(info, f, indent=1, default=str)
    return path


def _replay_candidates(prog, cj, model, shapes, dtypes, pos_names, ins, cands, out, opts):
    spurious = 0
    for c in cands:
        if c.model is None:
            arrays = _test_vectors(prog, shapes, dtypes, False)[0]
        else:
            arrays = equiv.model_inputs(c.model, ins)
        if prog.x64:
            # also try the witness moved off the float32 grid (a hidden single-precision round trip
            # is invisible on float32-representable inputs)
            pert = [np.asarray(a) * (1.0 + 2.0 ** -30) + 2.0 ** -33 if np.asarray(a).dtype.kind == "f" else a for a in arrays]
            differs, info = replay_concrete(prog, cj, model, pert, pos_names)
            if differs:
                out["status"] = "violation"
                out["witness"] = {"what": c.what + " (witness perturbed off the float32 grid)", "out_index": c.out_index, "elem": c.elem_index, **info}
                return out
        differs, info = replay_concrete(prog, cj, model, arrays, pos_names)
        if differs:
            out["status"] = "violation"
            out["witness"] = {"what": c.what, "out_index": c.out_index, "elem": c.elem_index, **info}
            return out
        spurious += 1
    # boundary vectors as a last resort
    for arrays in _test_vectors(prog, shapes, dtypes, False)[1:]:
        try:
            if not _in_domain(prog, cj, model, arrays, pos_names):
                continue
            differs, info = replay_concrete(prog, cj, model, arrays, pos_names)
        except Exception:
            continue
        if differs:
            out["status"] = "violation"
            out["witness"] = {"what": "boundary vector", **info}
            return out
    out["status"] = "inconclusive"
    out["reason"] = f"{spurious} solver models did not reproduce on ORT vs JAX (abstraction)"
    out["spurious"] = spurious
    return out


def _in_domain(prog, cj, model, arrays, pos_names):
    """is this concrete input vector inside the domain predicates of both evaluators (divisor != 0,
    shift amounts below the width, indices in bounds, casts in range, ...)?"""
    try:
        jctx = jax_sem.JCtx(unroll=64)
        consts = [jax_sem.literal_T(np.asarray(c), v.aval) for c, v in zip(cj.consts, cj.jaxpr.constvars)]
        jax_sem.eval_jaxpr(jctx, cj.jaxpr, consts, [S.from_numpy(np.asarray(a)) for a in arrays])
        if jctx.violated:
            return False
        for d in list(jctx.domain) + list(jctx.index_domain):
            if d is False or (S.is_sym(d) and z3.is_false(z3.simplify(d))):
                return False
    except DomainError:
        return False
    except Exception:
        return True
    try:
        gins = {g.name: g for g in model_io(model, prog)}
        in_nchw = set(prog.config.get("inputs_as_nchw") or ())
        feeds = {}
        for i, (n, a) in enumerate(zip(pos_names, arrays)):
            mdt = onnx_sem.np_dtype_of(gins[n].type.tensor_type.elem_type)
            aa = np.transpose(a, (0, 3, 1, 2)) if i in in_nchw else a
            feeds[n] = S.from_numpy(np.require(np.asarray(aa).astype(mdt), requirements="C"), mdt)
        for k, v in prog.input_params.items():
            if k in gins:
                mdt = onnx_sem.np_dtype_of(gins[k].type.tensor_type.elem_type)
                feeds[k] = S.from_numpy(np.asarray(v).astype(mdt), mdt)
        _, octx = onnx_sem.run_model(model, feeds, unroll=64)
        for d in octx.domain:
            if d is False or (S.is_sym(d) and z3.is_false(z3.simplify(d))):
                return False
    except DomainError:
        return False
    except Exception:
        return True
    return True


def _replay_shape(prog, cj, model, shapes, dtypes, pos_names, out, opts):
    arrays = _test_vectors(prog, shapes, dtypes, True)[0]
    differs, info = replay_concrete(prog, cj, model, arrays, pos_names)
    if differs:
        out["status"] = "violation"
        out["witness"] = info
    else:
        out["status"] = "harness_error"
        out["reason"] = "shape mismatch between evaluators not reproduced: " + out.get("reason", "")
    return out


def _replay_invalid(prog, cj, model, shapes, dtypes, pos_names, out, opts):
    import onnx

    arrays = _test_vectors(prog, shapes, dtypes, True)[0]
    fails = []
    try:
        onnx.checker.check_model(model, full_check=True)
    except Exception as e:
        fails.append(f"checker: {str(e)[:200]}")
    try:
        differs, info = replay_concrete(prog, cj, model, arrays, pos_names)
        if differs:
            fails.append("ort: " + info.get("ort_error", info.get("why", "")))
    except Exception as e:
        fails.append(f"replay: {e}")
    if fails:
        out["status"] = "violation"
        out["witness"] = {"invalid": out.get("reason"), "confirmed_by": fails}
    else:
        out["status"] = "harness_error"
        out["reason"] = "encoder refused a model that checker and ORT accept: " + out.get("reason", "")
    return out
