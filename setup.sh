#!/bin/sh
# Build the overlay venv the checks run in: /venv's packages + /repo on the path,
# plus crosshair-tool / z3-solver / cvc5 from the offline wheelhouse.
set -e
cd "$(dirname "$0")"
V=/verif/.venv
if [ -x "$V/bin/python" ] && "$V/bin/python" -c "import z3, crosshair, jax, onnx, jsonschema" 2>/dev/null; then
  exit 0
fi
rm -rf "$V"
/venv/bin/python -m venv "$V"
SP="$V/lib/python3.12/site-packages"
printf "import site; site.addsitedir('/venv/lib/python3.12/site-packages')\n" > "$SP/_j2ov_base.pth"
printf "/repo\n" > "$SP/_j2ov_repo.pth"
PIP_NO_INDEX=1 "$V/bin/pip" install -q --no-index --find-links /opt/veriftools/wheels crosshair-tool z3-solver cvc5 jsonschema
"$V/bin/python" -c "import z3, crosshair, jax, onnx, jsonschema; print('overlay venv ok', z3.get_version_string())"
